#!/bin/sh
# developer helper: run every registered quick (or $1) check sequentially, print rc and wall time
cd "$(dirname "$0")"
TIER=${1:-quick}
mkdir -p work
for id in $(python3 -c "import json;print(' '.join(c['property_id'] for c in json.load(open('MANIFEST.json'))['checks']))"); do
  s=$(date +%s)
  ./check $id --tier $TIER > work/$id.$TIER.out 2>&1
  rc=$?
  e=$(date +%s)
  echo "$id rc=$rc $((e-s))s $(tail -1 work/$id.$TIER.out | cut -c1-150)"
done
