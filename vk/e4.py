"""E4 — MIR -> SMT-LIB encoder for C17 (partial): panic-freedom of the length-indexed string edits
that build the "use `unsafe`" suggestion (`*::panic::union_without_unsafe`, three functions).

The MIR of the current tree is dumped on every run (from a scratch copy, removed afterwards); the
functions are loop-free, so their CFG is walked symbolically over one SMT string variable: the
printed form of the attribute.  `String::len` -> str.len, `switchInt` -> case split, `push_str` ->
str.++, `insert_str(i, t)` -> precondition i <= len (ASCII, so every index is a char boundary),
`str::replace` -> str.replace_all, `panic`/`unreachable` -> goal.  Calls that do not touch the string
are skipped from a whitelist; an unknown call makes the run inconclusive.  z3 and cvc5 are both asked;
every model is replayed through rustc with the real proc macro."""
import json
import os
import re
import shutil
import subprocess
import tempfile
import time

from .runner import VERIF, REPO, WORK, sh, load_known, copy_lock

SKIP_CALLS = [r'into_token_stream', r'as Spanned>::span', r'Argument::<.*>::new_display', r'Arguments::<.*>::new', r'^format\b', r'alloc::fmt::format', r'std::fmt::format', r'must_use',
              r'syn::Error::new', r'Error::new']
TRAIT_OF = {'hash': 'Hash', 'partial_eq': 'PartialEq', 'debug': 'Debug'}


def dump_mir():
    tmp = tempfile.mkdtemp(prefix='educe_mir_')
    try:
        shutil.copytree(os.path.join(REPO, 'src'), os.path.join(tmp, 'src'))
        shutil.copy(os.path.join(REPO, 'Cargo.toml'), os.path.join(tmp, 'Cargo.toml'))
        copy_lock(tmp)
        rc, out = sh('cargo +nightly rustc --offline --lib --target-dir ' + os.path.join(WORK, 'target-mir') + ' -- -Zunpretty=mir -C debug-assertions=off 2>mir.err > mir.txt',
                     cwd=tmp, timeout=1800)
        txt = open(os.path.join(tmp, 'mir.txt')).read() if os.path.exists(os.path.join(tmp, 'mir.txt')) else ''
        err = open(os.path.join(tmp, 'mir.err')).read() if os.path.exists(os.path.join(tmp, 'mir.err')) else ''
        return txt, err
    finally:
        shutil.rmtree(tmp, ignore_errors=True)


def functions(mir):
    """-> {name: body text} for the kernels"""
    out = {}
    for m in re.finditer(r'^fn ([\w:<>& ]*panic::union_without_unsafe)\(.*?\{\n(.*?)^\}', mir, re.S | re.M):
        out[m.group(1)] = m.group(2)
    return out


def parse_blocks(body):
    blocks = {}
    for m in re.finditer(r'^    (bb\d+)( \(cleanup\))?: \{\n(.*?)^    \}', body, re.S | re.M):
        lines = [l.strip() for l in m.group(3).splitlines() if l.strip()]
        blocks[m.group(1)] = dict(cleanup=bool(m.group(2)), lines=lines)
    return blocks


def smt_str(s):
    return '"' + s.replace('"', '""') + '"'


class Path:
    usesD = False

    def __init__(self):
        self.conds = []
        self.strs = {}      # local -> smt string expr
        self.refs = {}      # local -> local it points to
        self.consts = {}    # local -> python string
        self.lens = {}      # local -> smt int expr
        self.ops = []
        self.fresh = []
        self.mutrefs = set()
        self.ints = {}
        self.opts = {}
        self.ranges = {}
        self.bools = {}
        self.disc = {}

    def clone(self):
        p = Path()
        p.conds = list(self.conds)
        p.strs = dict(self.strs)
        p.refs = dict(self.refs)
        p.consts = dict(self.consts)
        p.lens = dict(self.lens)
        p.ops = list(self.ops)
        p.fresh = list(self.fresh)
        p.mutrefs = set(self.mutrefs)
        p.ints = dict(self.ints)
        p.opts = dict(self.opts)
        p.ranges = dict(self.ranges)
        p.bools = dict(self.bools)
        p.disc = dict(self.disc)
        return p


def unescape(s):
    return bytes(s, 'utf-8').decode('unicode_escape')


def arg_local(a):
    a = a.strip()
    m = re.match(r'(?:move|copy)\s+(_\d+)', a)
    return m.group(1) if m else None


def arg_const_str(a, p):
    a = a.strip()
    m = re.match(r'const "(.*)"$', a)
    if m:
        return unescape(m.group(1))
    l = arg_local(a)
    return p.consts.get(l)


def split_args(s):
    out, depth, cur, q = [], 0, '', False
    for c in s:
        if c == '"':
            q = not q
        if not q:
            if c in '([<':
                depth += 1
            elif c in ')]>':
                depth -= 1
            elif c == ',' and depth == 0:
                out.append(cur)
                cur = ''
                continue
        cur += c
    if cur.strip():
        out.append(cur)
    return out


PREFIX = ['']
SKIPPED = []


def explore(blocks):
    """-> (bad paths [(conds, description, ops)], safe path count, unknown calls)"""
    bad, unknown = [], []
    safe = [0]
    skipped = SKIPPED

    def target_str(p, a):
        l = arg_local(a)
        while l in p.refs:
            l = p.refs[l]
        return l

    def run(bb, p, seen):
        if bb in seen:
            unknown.append(f'loop through {bb}')
            return
        seen = seen | {bb}
        b = blocks[bb]
        if b['cleanup']:
            return
        for line in b['lines']:
            # plain statements
            m = re.match(r'(_\d+) = const "(.*)";$', line)
            if m:
                p.consts[m.group(1)] = unescape(m.group(2))
                continue
            m = re.match(r'(_\d+) = &(mut )?(_\d+);$', line)
            if m:
                p.refs[m.group(1)] = m.group(3)
                if m.group(2):
                    p.mutrefs.add(m.group(1))
                continue
            m = re.match(r'(_\d+) = discriminant\(\(\*_1\)\);$', line)
            if m:
                p.lens[m.group(1)] = 'D'      # variant index of the `Meta` argument: 0 Path, 1 List, 2 NameValue (tied to S in the environment)
                p.usesD = True
                continue
            m = re.match(r'(_\d+) = Add\((?:move|copy) (_\d+), const (\d+)_usize\);$', line)
            if m and m.group(2) in p.ints:
                p.ints[m.group(1)] = f'(+ {p.ints[m.group(2)]} {m.group(3)})'
                continue
            m = re.match(r'(_\d+) = Sub\((?:move|copy) (_\d+), const (\d+)_usize\);$', line)
            if m and m.group(2) in p.ints:
                bad.append((list(p.conds) + [f'(< {p.ints[m.group(2)]} {m.group(3)})'], f'{bb}: usize subtraction below zero', list(p.ops), list(p.fresh)))
                p.conds.append(f'(>= {p.ints[m.group(2)]} {m.group(3)})')
                p.ints[m.group(1)] = f'(- {p.ints[m.group(2)]} {m.group(3)})'
                continue
            m = re.match(r'(_\d+) = (?:std|core)::ops::RangeFrom::<usize> \{ start: (?:move|copy) (_\d+) \};$', line)
            if m and m.group(2) in p.ints:
                p.ranges[m.group(1)] = ('from', p.ints[m.group(2)])
                continue
            m = re.match(r'(_\d+) = (?:std|core)::ops::RangeTo::<usize> \{ end: (?:move|copy) (_\d+) \};$', line)
            if m and m.group(2) in p.ints:
                p.ranges[m.group(1)] = ('to', p.ints[m.group(2)])
                continue
            m = re.match(r'switchInt\((?:copy|move) (_\d+)\) -> \[(.*)\];$', line)
            if m and m.group(1) in p.bools:
                bexp = p.bools[m.group(1)]
                arms = dict(x.strip().split(': ') for x in m.group(2).split(','))
                q = p.clone(); q.conds.append(f'(not {bexp})'); run(arms.get('0'), q, seen)
                q = p.clone(); q.conds.append(bexp); run(arms.get('otherwise'), q, seen)
                return
            if m and m.group(1) in p.opts:
                idx = p.opts[m.group(1)]
                arms = dict(x.strip().split(': ') for x in m.group(2).split(','))
                q = p.clone(); q.conds.append(f'(< {idx} 0)'); run(arms.get('0'), q, seen)
                q = p.clone(); q.conds.append(f'(>= {idx} 0)'); run(arms.get('1', arms.get('otherwise')), q, seen)
                return
            if m:
                v = p.lens.get(m.group(1))
                arms = [x.strip() for x in m.group(2).split(',')]
                vals = []
                for a in arms:
                    k, t = [x.strip() for x in a.split(':')]
                    if k == 'otherwise':
                        q = p.clone()
                        if v is not None:
                            q.conds += [f'(not (= {v} {x}))' for x in vals]
                        run(t, q, seen)
                    else:
                        vals.append(k)
                        q = p.clone()
                        if v is not None:
                            q.conds.append(f'(= {v} {k})')
                        run(t, q, seen)
                return
            m = re.match(r'goto -> (bb\d+);$', line)
            if m:
                run(m.group(1), p, seen)
                return
            if line == 'return;':
                safe[0] += 1
                return
            m = re.match(r'drop\(.*\) -> \[return: (bb\d+),.*\];$', line)
            if m:
                run(m.group(1), p, seen)
                return
            if line in ('unreachable;', 'resume;'):
                return
            # calls
            m = re.match(r'(_\d+) = (.*?)\((.*)\) -> (?:\[return: (bb\d+)(?:, unwind[^\]]*)?\]|(bb\d+));$', line)
            if m:
                dst, callee, args, ret, div = m.group(1), m.group(2), split_args(m.group(3)), m.group(4), m.group(5)
                if re.match(r'^(core::panicking::)?panic', callee) or 'panic' in callee.split('::')[-1]:
                    msg = arg_const_str(args[0], p) if args else ''
                    bad.append((list(p.conds), f'{bb}: {callee}({msg!r})', list(p.ops), list(p.fresh)))
                    return
                if ret is None:
                    unknown.append(f'{bb}: diverging call {callee}')
                    return
                if 'as ToString>::to_string' in callee or callee.endswith('ToString>::to_string'):
                    p.strs[dst] = 'S'
                elif 'Deref>::deref' in callee or callee.endswith('String::as_str'):
                    src = target_str(p, args[0])
                    p.refs[dst] = src
                elif re.search(r'str>::replace::<&str>$|impl str>::replace', callee):
                    src = target_str(p, args[0])
                    frm, to = arg_const_str(args[1], p), arg_const_str(args[2], p)
                    if src not in p.strs or frm is None or to is None:
                        unknown.append(f'{bb}: replace with non-constant arguments')
                        return
                    # sound over-approximation of str::replace (exact replace_all makes both solvers slow): a fresh string R with
                    # |R| bounded by the length ratio, R = S when the pattern does not occur, and the attribute's path prefix preserved
                    src_e = p.strs[src]
                    r = f'R{len(p.fresh)}'
                    p.fresh.append(r)
                    if len(to) <= len(frm):
                        p.conds.append(f'(<= (str.len {r}) (str.len {src_e}))')
                        p.conds.append(f'(>= (* {len(frm)} (str.len {r})) (* {len(to)} (str.len {src_e})))')
                    else:
                        p.conds.append(f'(>= (str.len {r}) (str.len {src_e}))')
                    p.conds.append(f'(=> (not (str.contains {src_e} {smt_str(frm)})) (= {r} {src_e}))')
                    if PREFIX[0] and not any(ch in PREFIX[0] for ch in frm):
                        p.conds.append(f'(=> (str.prefixof {smt_str(PREFIX[0])} {src_e}) (str.prefixof {smt_str(PREFIX[0])} {r}))')
                    p.strs[dst] = r
                    p.ops.append(f'replace {frm!r} -> {to!r} (over-approximated)')
                elif callee.endswith('String::len'):
                    src = target_str(p, args[0])
                    if src not in p.strs:
                        unknown.append(f'{bb}: len of an untracked string')
                        return
                    p.lens[dst] = f'(str.len {p.strs[src]})'
                elif callee.endswith('String::push_str'):
                    src = target_str(p, args[0])
                    lit = arg_const_str(args[1], p)
                    if src not in p.strs or lit is None:
                        unknown.append(f'{bb}: push_str with non-constant argument')
                        return
                    p.strs[src] = f'(str.++ {p.strs[src]} {smt_str(lit)})'
                    p.ops.append(f'push_str {lit!r}')
                elif re.search(r'impl str>::find::<(char|&str)>$', callee):
                    src = target_str(p, args[0])
                    cm = re.match(r"const '(.*)'$", args[1].strip())
                    pat = cm.group(1) if cm else arg_const_str(args[1], p)
                    if src not in p.strs or pat is None:
                        unknown.append(f'{bb}: find with non-constant pattern')
                        return
                    p.opts[dst] = f'(str.indexof {p.strs[src]} {smt_str(unescape(pat))} 0)'
                    p.ops.append(f'find {pat!r}')
                elif re.search(r'Option::<usize>::(unwrap|expect)$', callee):
                    o = arg_local(args[0])
                    if o not in p.opts:
                        unknown.append(f'{bb}: unwrap of an untracked Option')
                        return
                    bad.append((list(p.conds) + [f'(< {p.opts[o]} 0)'], f'{bb}: {callee.split("::")[-1]}() on None (pattern not found)', list(p.ops), list(p.fresh)))
                    p.conds.append(f'(>= {p.opts[o]} 0)')
                    p.ints[dst] = p.opts[o]
                elif re.search(r'Index<(std|core)::ops::Range(From|To)<usize>>>::index$', callee):
                    src = target_str(p, args[0])
                    rl = arg_local(args[1])
                    if src not in p.strs or rl not in p.ranges:
                        unknown.append(f'{bb}: string slicing with an untracked range')
                        return
                    kind, iv = p.ranges[rl]
                    se = p.strs[src]
                    bad.append((list(p.conds) + [f'(or (< {iv} 0) (> {iv} (str.len {se})))'], f'{bb}: string slice index beyond the end', list(p.ops), list(p.fresh)))
                    p.conds.append(f'(and (>= {iv} 0) (<= {iv} (str.len {se})))')
                    p.strs[dst] = f'(str.substr {se} {iv} (- (str.len {se}) {iv}))' if kind == 'from' else f'(str.substr {se} 0 {iv})'
                    p.refs.pop(dst, None)
                elif re.search(r'impl str>::trim(_start|_end)?$', callee):
                    src = target_str(p, args[0])
                    if src not in p.strs:
                        unknown.append(f'{bb}: trim of an untracked string')
                        return
                    r = f'R{len(p.fresh)}'
                    p.fresh.append(r)
                    se = p.strs[src]
                    p.conds.append(f'(str.contains {se} {r})')
                    p.conds.append(f'(not (str.prefixof " " {r}))' if not callee.endswith('trim_end') else f'(not (str.suffixof " " {r}))')
                    p.conds.append(f'(=> (not (str.contains {se} " ")) (= {r} {se}))')
                    p.strs[dst] = r
                    p.ops.append('trim (over-approximated)')
                elif re.search(r'impl str>::(starts_with|ends_with)::<(char|&str)>$', callee):
                    src = target_str(p, args[0])
                    cm = re.match(r"const '(.*)'$", args[1].strip())
                    pat = cm.group(1) if cm else arg_const_str(args[1], p)
                    if src not in p.strs or pat is None:
                        unknown.append(f'{bb}: starts_with with non-constant pattern')
                        return
                    fn_ = 'str.prefixof' if 'starts_with' in callee else 'str.suffixof'
                    p.bools[dst] = f'({fn_} {smt_str(unescape(pat))} {p.strs[src]})'
                elif callee.endswith('String::insert_str') or callee.endswith('String::insert'):
                    src = target_str(p, args[0])
                    im = re.match(r'const (\d+)_usize', args[1].strip())
                    lit = arg_const_str(args[2], p)
                    il = arg_local(args[1])
                    if src in p.strs and not im and il in p.ints and lit is not None:
                        iv = p.ints[il]
                        se = p.strs[src]
                        bad.append((list(p.conds) + [f'(or (< {iv} 0) (> {iv} (str.len {se})))'], f'{bb}: String::insert_str(<computed index>, {lit!r}) beyond the end of the string', list(p.ops), list(p.fresh)))
                        p.conds.append(f'(and (>= {iv} 0) (<= {iv} (str.len {se})))')
                        p.strs[src] = f'(str.++ (str.substr {se} 0 {iv}) {smt_str(lit)} (str.substr {se} {iv} (- (str.len {se}) {iv})))'
                        p.ops.append(f'insert_str <computed> {lit!r}')
                        run(ret, p, seen)
                        return
                    if src not in p.strs or not im or lit is None:
                        unknown.append(f'{bb}: insert_str with non-constant arguments')
                        return
                    idx = int(im.group(1))
                    s = p.strs[src]
                    # precondition: idx <= len (and idx on a char boundary: guaranteed for ASCII, assumed below)
                    bad.append((list(p.conds) + [f'(> {idx} (str.len {s}))'], f'{bb}: String::insert_str({idx}, {lit!r}) beyond the end of the string', list(p.ops), list(p.fresh)))
                    p.conds.append(f'(<= {idx} (str.len {s}))')
                    p.strs[src] = f'(str.++ (str.substr {s} 0 {idx}) {smt_str(lit)} (str.substr {s} {idx} (- (str.len {s}) {idx})))'
                    p.ops.append(f'insert_str {idx} {lit!r}')
                elif re.search(r'String::(remove|truncate|replace_range|split_off|drain)|str>::(split_at|get_unchecked)|\[.*\]::index|Index|Option::<.*>::(unwrap|expect)|Result::<.*>::(unwrap|expect)', callee):
                    unknown.append(f'{bb}: string operation not modelled: {callee}')
                    return
                elif any(re.search(x, callee) for x in SKIP_CALLS):
                    pass
                else:
                    # a call outside the whitelist matters only if it can change a tracked string (receives it by &mut or by value)
                    touches = False
                    for a in args:
                        l = arg_local(a)
                        if l is None:
                            continue
                        tgt = l
                        while tgt in p.refs:
                            tgt = p.refs[tgt]
                        if tgt in p.strs and (l in p.mutrefs or (l == tgt and a.strip().startswith('move'))):
                            touches = True
                    if touches:
                        unknown.append(f'{bb}: call not in the whitelist receives the tracked string mutably: {callee}')
                        return
                    skipped.append(callee)
                run(ret, p, seen)
                return
            # anything else: aggregate / copy statements that do not touch the string
            if re.match(r'(_\d+) = ', line) or line.startswith('StorageLive') or line.startswith('StorageDead') or line.startswith('nop'):
                continue
            unknown.append(f'{bb}: statement not understood: {line[:80]}')
            return
        unknown.append(f'{bb}: fell off the block')

    run('bb0', Path(), frozenset())
    return bad, safe[0], unknown


def environment(trait):
    """what meta.to_token_stream().to_string() can be when union_without_unsafe is reached (over-approximation, see DESIGN)"""
    t = smt_str(trait)
    if trait in ('Hash', 'PartialEq'):
        # `bound` is disabled on unions, so only the bare path or an empty list in any delimiter, with optional spaces
        alts = [t]
        for o, c in (('(', ')'), ('[', ']'), ('{', '}')):
            for sp in ('', ' '):
                for isp in ('', ' '):
                    alts.append(smt_str(trait + sp + o + isp + c))
        return '(and (>= D 0) (<= D 2) (=> (= D 0) (= S ' + t + ')) (or ' + ' '.join(f'(= S {a})' for a in alts) + '))'
    # Debug: the three printed forms of a syn::Meta without the `unsafe` marker, tied to its variant index D
    #   Path:       Debug                         (D = 0)
    #   List:       Debug(<params>) in (), [] or {} with optional space before the delimiter (D = 1)
    #   NameValue:  Debug = <identifier or string literal>   (D = 2)
    inner = '(re.* (re.union (re.range "a" "z") (re.range "A" "Z") (re.range "0" "9") (str.to_re "_") (str.to_re " ") (str.to_re "=") (str.to_re ",") (str.to_re "(") (str.to_re ")") (str.to_re "\\u{22}")))'
    ident = '(re.++ (re.union (re.range "a" "z") (re.range "A" "Z")) (re.* (re.union (re.range "a" "z") (re.range "A" "Z") (re.range "0" "9") (str.to_re "_"))))'
    lst = ' '.join(f'(re.++ (str.to_re {t}) (re.opt (str.to_re " ")) (str.to_re "{o}") {inner} (str.to_re "{c}"))' for o, c in (('(', ')'), ('[', ']'), ('{', '}')))
    return (f'(and (<= (str.len S) 48) (>= D 0) (<= D 2)'
            f' (=> (= D 0) (= S {t}))'
            f' (=> (= D 1) (and (str.in_re S (re.union {lst})) (not (str.prefixof "{trait}(unsafe" S)) (not (str.prefixof "{trait} (unsafe" S))))'
            f' (=> (= D 2) (str.in_re S (re.++ (str.to_re {t}) (str.to_re " = ") {ident}))))')


def ask(solver, smt, timeout=120):
    cmd = {'z3': ['z3', '-in', '-T:%d' % timeout], 'cvc5': ['cvc5', '--lang', 'smt2', '--strings-exp', '--produce-models', '--tlimit=%d' % (timeout * 1000)]}[solver]
    try:
        p = subprocess.run(cmd, input=smt, stdout=subprocess.PIPE, stderr=subprocess.STDOUT, text=True, timeout=timeout + 30)
    except subprocess.TimeoutExpired:
        return 'timeout', ''
    out = p.stdout
    if '(error' in out:
        return 'error', out[:300]
    first = out.strip().splitlines()[0] if out.strip() else ''
    val = None
    m = re.search(r'\(\(S "((?:[^"]|"")*)"\)\)', out)
    if m:
        val = m.group(1).replace('""', '"')
    return first, val


def replay(trait, s):
    """compile #[educe(<s>)] union with the real proc macro; -> (panicked?, rustc output)"""
    tmp = tempfile.mkdtemp(prefix='educe_c17_')
    try:
        os.makedirs(os.path.join(tmp, 'src'))
        open(os.path.join(tmp, 'Cargo.toml'), 'w').write(f'[package]\nname = "rp"\nversion = "0.0.0"\nedition = "2021"\n[dependencies]\neduce = {{ path = "{REPO}" }}\n[workspace]\n')
        copy_lock(tmp)
        src = f'use educe::Educe;\n#[derive(Educe)]\n#[educe({s})]\npub union U {{ a: u8 }}\n'
        open(os.path.join(tmp, 'src', 'lib.rs'), 'w').write(src)
        rc, out = sh(['cargo', 'check', '--offline', '--target-dir', os.path.join(WORK, 'target-native')], cwd=tmp, timeout=900)
        return ('proc-macro derive panicked' in out or 'proc macro panicked' in out), out[-1500:], src
    finally:
        shutil.rmtree(tmp, ignore_errors=True)


def panic_smoke():
    """AUXILIARY, not the deciding step of C17: derive inputs that are malformed in ways the kernels' encoding does not model (every variant
    name of the macro's own `Trait` enum — also internal ones — as a trait / parameter name at every level, empty and doubled parameters,
    wrong value kinds) go through the real macro in-process (tools/expander, catch_unwind); a panic is reported as a violation found by
    execution.  -> (inputs, [panicking input], error)"""
    from . import e2
    exe, err = e2.build_expander()
    if exe is None:
        return 0, [], 'tools/expander does not build: ' + err[-600:]
    src = open(os.path.join(REPO, 'src', 'supported_traits.rs')).read()
    m = re.search(r'enum\s+Trait\s*\{(.*?)\n\}', src, re.S)
    variants = re.findall(r'^\s*([A-Za-z_][A-Za-z0-9_]*)\s*,', m.group(1), re.M)
    idents = variants + ['Nothing', 'Self', 'debug', 'DEBUG', 'r#Debug', 'Educe', 'educe', 'unsafe', 'bound', 'name']
    inputs = []
    for i in idents:
        inputs += [f'#[educe({i})] struct S(u8);', f'#[educe(Debug, {i})] struct S(u8);', f'#[educe(Debug)] struct S(#[educe({i})] u8);', f'#[educe(Debug)] enum E {{ #[educe({i})] A(u8) }}',
                   f'#[educe(Debug({i}))] struct S(u8);', f'#[educe(Debug({i} = 1))] struct S(u8);', f'#[educe(Debug({i}(x)))] struct S(u8);', f'#[educe({i}(name = x))] struct S(u8);',
                   f'#[educe(Debug)] struct S(#[educe(Debug({i}))] u8);', f'#[educe({i})] union U {{ a: u8 }}', f'#[educe({i}(unsafe))] union U {{ a: u8 }}']
    odd = ['#[educe] struct S(u8);', '#[educe()] struct S(u8);', '#[educe(Debug,,)] struct S(u8);', '#[educe(Debug(name))] struct S(u8);', '#[educe(Debug(name(1)))] struct S(u8);', '#[educe(Debug(name = 1))] struct S(u8);',
           '#[educe(Default(expression))] struct S(u8);', '#[educe(Into)] struct S(u8);', '#[educe(Into())] struct S(u8);', '#[educe(Into(u8, u16))] struct S(u8);', '#[educe(Deref)] enum E {}', '#[educe(Ord)] struct S(#[educe(Ord(rank = 1.5))] u8);',
           '#[educe(Ord)] struct S(#[educe(Ord(rank = "x"))] u8);', '#[educe(Ord)] struct S(#[educe(Ord(rank = -))] u8);', '#[educe(Ord)] struct S(#[educe(Ord(rank(-1, 2)))] u8);', '#[educe(Hash(unsafe, unsafe))] union U { a: u8 }',
           '#[educe(Debug(unsafe = 1))] union U { a: u8 }', '#[educe(Debug(unsafe()))] union U { a: u8 }', '#[educe(Default)] union U { a: u8, b: u8 }', '#[educe(Default)] enum E { A, B }', '#[educe(Default)] enum E {}', '#[educe(Debug)] struct S;',
           '#[educe(Debug(name = false))] struct S;', '#[educe(Debug(named_field = false))] struct S { a: u8 }', '#[educe(Clone(bound = 1))] struct S<T>(T);', '#[educe(Clone(bound = "T: "))] struct S<T>(T);', '#[educe(Clone(bound = "where"))] struct S<T>(T);',
           '#[educe(Clone(bound(T)))] struct S<T>(T);', '#[educe(Clone(bound(*, *)))] struct S<T>(T);', '#[educe(Default(expression = "(")) ] struct S(u8);', '#[educe(Default = ")")] struct S(u8);', '#[educe(Default(new, new))] struct S(u8);',
           '#[educe(Deref)] struct S(u8, u8);', '#[educe(Deref)] struct S;', '#[educe(DerefMut)] struct S(#[educe(DerefMut)] u8, #[educe(DerefMut)] u8);', '#[educe(Into(u8))] struct S;', '#[educe(Into(u8))] enum E { A }',
           '#[educe(Into(&u8))] struct S(u8);', "#[educe(Into(&'static (dyn core::fmt::Debug + Send)))] struct S(u8);", '#[educe(Into(fn(u8) -> u8))] struct S(u8);', '#[educe(Into([u8; 2]))] struct S(u8);', '#[educe(Into((u8,)))] struct S(u8);',
           '#[educe(PartialOrd)] enum E { A = 1, B = -1 }', '#[educe(Ord)] #[repr(u8)] enum E { A = 255, B }', '#[educe(Ord)] enum E { A = 1 + 1, B = !0 }', '#[educe(Hash)] #[repr(C, packed)] struct S(u8, u32);', '#[educe(Debug)] #[repr(packed)] struct S(u8, u32);',
           '#[educe(Debug(method))] struct S(u8);', '#[educe(Debug)] struct S(#[educe(Debug(method))] u8);', '#[educe(Debug)] struct S(#[educe(Debug(method = 1))] u8);', '#[educe(Debug)] struct S(#[educe(Debug(method("")))] u8);', '#[educe(Debug)] struct S(#[educe(Debug(method = ""))] u8);',
           '#[educe(Debug)] struct S(#[educe(Debug(method = "a b"))] u8);', '#[educe(Debug)] struct S(#[educe(Debug(name = ""))] u8);', '#[educe(Debug(name = ""))] struct S(u8);', '#[educe(Debug(name = "a b"))] struct S { a: u8 }', '#[educe(Debug)] struct S { #[educe(Debug(name = "1x"))] a: u8 }']
    inputs += odd

    class _R:
        def __init__(self, i, src):
            self.rid = f's{i}'
            self.src = src

        def source(self, with_derive=False):
            return self.src
    reqs = [_R(i, s) for i, s in enumerate(inputs)]
    try:
        res = e2.expand(exe, reqs)
    except Exception as e:
        return len(reqs), [], f'expander run failed: {e}'
    return len(reqs), [r.src for r in reqs if res.get(r.rid, {}).get('panic')], ''


def main(tier, seed, keep=False):
    t0 = time.time()
    mir, err = dump_mir()
    if 'union_without_unsafe' not in mir:
        print('INCONCLUSIVE: MIR dump failed or the kernels are gone:\n' + err[-1500:])
        return 2
    fns = functions(mir)
    inconclusive, violations, samples = [], [], []
    queries = {'z3': 0, 'cvc5': 0}
    solver_s = 0.0
    obligations = discharged = 0
    encoded = []
    known = load_known('C17')
    kprinted = set()
    shutil.rmtree(os.path.join(VERIF, 'replays', 'C17'), ignore_errors=True)
    for name, body in sorted(fns.items()):
        mod = [x for x in name.split('::') if x in TRAIT_OF]
        trait = TRAIT_OF[mod[-1]] if mod else None
        if trait is None:
            inconclusive.append(f'{name}: cannot tell the trait from the path')
            continue
        blocks = parse_blocks(body)
        PREFIX[0] = trait
        bad, safe, unknown = explore(blocks)
        encoded.append(dict(function=name, basic_blocks=len(blocks), panic_paths=len(bad), returning_paths=safe))
        for u in unknown:
            inconclusive.append(f'{name}: {u}')
        if safe == 0:
            inconclusive.append(f'{name}: no returning path found (vacuous encoding)')
        env = environment(trait)
        for conds, desc, ops, fresh in bad:
            obligations += 1
            base = ('(set-logic ALL)\n(set-option :produce-models true)\n(declare-const S String)\n(declare-const D Int)\n' + ''.join(f'(declare-const {r} String)\n' for r in fresh)
                    + f'(assert {env})\n' + ''.join(f'(assert {c})\n' for c in conds))
            models = []
            verdicts = {}
            blocked = ''
            for k in range(6):
                smt = base + blocked + '(check-sat)\n'
                ts = time.time()
                r1, v1 = ask('z3', smt)
                if r1 == 'sat':
                    r1, v1 = ask('z3', smt + '(get-value (S))\n')
                solver_s += time.time() - ts
                queries['z3'] += 1
                if k == 0:
                    ts = time.time()
                    r2, v2 = ask('cvc5', smt)
                    solver_s += time.time() - ts
                    queries['cvc5'] += 1
                    verdicts = dict(z3=r1, cvc5=r2)
                    if r1 in ('error', 'timeout', 'unknown') or r2 in ('error', 'timeout', 'unknown') or r1 != r2:
                        inconclusive.append(f'{name}: {desc}: solvers disagree or failed: {verdicts}')
                        break
                if r1 != 'sat' or v1 is None:
                    break
                models.append(v1)
                blocked += f'(assert (not (= S {smt_str(v1)})))\n'
            if verdicts.get('z3') == 'unsat' and verdicts.get('cvc5') == 'unsat':
                discharged += 1
                if len(samples) < 3:
                    samples.append(dict(function=name, path=desc, string_ops=ops, environment=env, verdict='unsat (z3, cvc5)'))
                continue
            if not models:
                continue
            # replay each model through rustc; report only what reproduces
            confirmed = None
            tried = []
            for s in models:
                pan, out, src = replay(trait, s)
                tried.append(dict(attribute=s, panicked=pan))
                if pan:
                    confirmed = (s, out, src)
                    break
            if confirmed:
                s, out, src = confirmed
                key = f'c17:{trait.lower()}-union-without-unsafe-indexed-edit'
                k = next((k for k in known if k['key'] == key), None)
                if k:
                    if key not in kprinted:
                        print(f"KNOWN-FINDING: property=C17 {k['what']} [{key}]")
                        kprinted.add(key)
                    discharged += 0
                    continue
                rd = os.path.join(VERIF, 'replays', 'C17', f'{trait}_{len(violations)}')
                os.makedirs(os.path.join(rd, 'src'), exist_ok=True)
                open(os.path.join(rd, 'Cargo.toml'), 'w').write(f'[package]\nname = "rp"\nversion = "0.0.0"\nedition = "2021"\n[dependencies]\neduce = {{ path = "{REPO}" }}\n[workspace]\n')
                copy_lock(rd)
                open(os.path.join(rd, 'src', 'lib.rs'), 'w').write(src)
                open(os.path.join(rd, 'REPLAY.md'), 'w').write(f'{name}\npath: {desc}\nsolver model: S = {s!r}\nreplay: cargo check --offline  (expected: proc-macro derive panicked)\n\n{out}\n')
                violations.append(dict(what=f'{name}: {desc}; #[educe({s})] on a union makes the derive panic', replay=rd))
            else:
                inconclusive.append(f'{name}: {desc}: models {tried} do not make rustc report a proc-macro panic (environment over-approximation)')
    n_smoke, panics, smoke_err = panic_smoke()
    if smoke_err:
        inconclusive.append('auxiliary panic smoke: ' + smoke_err)
    for k, src in enumerate(panics[:5]):
        rd = os.path.join(VERIF, 'replays', 'C17', f'smoke_{k}')
        os.makedirs(os.path.join(rd, 'src'), exist_ok=True)
        open(os.path.join(rd, 'Cargo.toml'), 'w').write(f'[package]\nname = "rp"\nversion = "0.0.0"\nedition = "2021"\n[dependencies]\neduce = {{ path = "{REPO}" }}\n[workspace]\n')
        copy_lock(rd)
        open(os.path.join(rd, 'src', 'lib.rs'), 'w').write('#![allow(dead_code)]\nuse educe::Educe;\n#[derive(Educe)]\n' + src + '\n')
        open(os.path.join(rd, 'REPLAY.md'), 'w').write('auxiliary panic smoke (found by execution of the real macro, not by the solver)\nreplay: cargo check --offline  (expected: proc-macro derive panicked)\n')
        violations.append(dict(what=f'the derive panics on `{src}` (auxiliary native smoke through tools/expander)', replay=rd))
    ev = dict(property_id='C17', tier=tier, seed=seed, level='model_checking', wall_s=round(time.time() - t0, 2), violations=len(violations),
              assumptions=['PARTIAL CLAIM: only the length-indexed string edits of the three *::panic::union_without_unsafe functions; the rest of C17 (arbitrary token mutations, unwraps on re-parsed fragments, stack depth, termination) is not claimed',
                           'environment: the printed attribute is <Trait> or <Trait> + empty list in (), [] or {} with optional spaces (Hash, PartialEq: `bound` is disabled on unions); for Debug, <Trait> followed by <= 43 printable ASCII characters not starting the `unsafe` form',
                           'ASCII only, so every byte index is a char boundary and str.len is the byte length',
                           'calls that do not touch the string are skipped from a whitelist; anything unknown makes the run inconclusive',
                           'MIR of rustc nightly (-Zunpretty=mir, debug-assertions off) from a scratch copy of the current tree'],
              coverage=dict(evaluations=max(obligations, 1), distinct_nontrivial=max(obligations, len(encoded)), obligations=obligations, discharged=discharged, functions_encoded=encoded, queries=queries,
                            solver_time_s=round(solver_s, 3), auxiliary_native_panic_smoke=dict(inputs=n_smoke, panics=len(panics), note='executed, not solver-decided; not part of the claim'), samples=samples or [dict(note='no panic path or indexed edit present in the kernels', functions=encoded)],
                            rule='one obligation per panic-reaching path or indexed-edit precondition of each kernel; the attribute text is the SMT string variable; distinct = obligations',
                            bounds=dict(string_length='<= 48', outside=['non-ASCII attribute text', 'every other panic source of the macro']),
                            checker_cmd='z3 -in and cvc5 --strings-exp on SMT-LIB generated from the MIR; cargo check with the real proc macro per model', exhaustive=False, inconclusive=inconclusive[:10]))
    os.makedirs(os.path.join(VERIF, 'evidence'), exist_ok=True)
    json.dump(ev, open(os.path.join(VERIF, 'evidence', 'C17.json'), 'w'), indent=1)
    for v in violations:
        print(f"VIOLATION property=C17 replay={v['replay']}\n  what: {v['what']}")
    if violations:
        return 1
    if inconclusive:
        for s in inconclusive[:10]:
            print('INCONCLUSIVE: ' + s[:500])
        return 2
    print(f'OK property=C17 (partial: string-edit kernels only): {discharged}/{obligations} panic-path obligations unsat in z3 and cvc5 over {len(encoded)} MIR functions')
    return 0
