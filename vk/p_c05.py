"""C05 — hash input is a function of the variant and the non-ignored fields only."""
from .model import F, V, T, Spelling, render_type, pattern, any_fn, variant_index_fn
from .runner import Harness, Module
from . import shapes as S

CODES = ['p', 'w', 'i', 'm']
FIELD = {'f': ('u8', {'ignore': False}), 'p': ('u8', None), 'w': ('u16', None), 'i': ('u8', {'ignore': True}), 'm': ('u8', {'method': 'hash_m'}),
         'd': ('PhantomData', None),
         's': ("&'static [u8]", None),     # a byte-slice reference: fed through its own Hash (length prefix + bytes), never as raw bytes
         'R': ("&'static u8", None)}    # a *user* type named like core's PhantomData (declared in the module): it carries data and is fed
USER_PHANTOM = '''#[derive(PartialEq, Debug)]
pub struct PhantomData(pub u8);
impl core::hash::Hash for PhantomData { fn hash<HH: core::hash::Hasher>(&self, s: &mut HH) { s.write_u8(self.0 ^ 0x55) } }
impl Sym for PhantomData { fn sym() -> Self { PhantomData(kani::any()) } }
'''
FUNCTIONS = ['<T as ::core::hash::Hash>::hash::<Rec> (educe expansion, struct and enum), observed through a recording Hasher']


def build(shape, with_peq=False, discs=None, repr_=None):
    kind, vs = shape
    variants = []
    for k, (vk, fl) in enumerate(vs):
        fields = []
        for i, c in enumerate(fl):
            both = c == 'x'     # `ignore` and `method` on one field: ignored
            if both:
                c = 'i'
            ty, p = FIELD[c]
            a = {}
            if p is not None:
                a['Hash'] = dict(p)
                if both:
                    a['Hash']['method'] = 'hash_m'
                if with_peq and c == 'i':
                    a['PartialEq'] = {'ignore': True}
            f = F(ty, S.fname(i, k, len(fl)) if vk == 'named' else None, **a)
            f.code = c
            fields.append(f)
        variants.append(V(S.VNAMES[k], vk, fields, disc=(discs[k] if discs and k < len(discs) else None)))
    traits = [('Hash', {})]
    if with_peq:
        traits.insert(0, ('PartialEq', {}))
    return T(kind, 'Ty', variants, traits, repr=repr_)


def oracle_fns(t):
    feed = ''
    key = ''
    for v in t.variants:
        steps = ''
        terms = []
        for i, f in enumerate(v.fields):
            if f.code == 'i':
                continue
            steps += (f'hash_m(a{i}, r); ' if f.code == 'm' else f'core::hash::Hash::hash(a{i}, r); ')
            terms.append(f'*a{i} == *b{i}')
        feed += f'        {pattern(t, v, "a")} => {{ {steps}}}\n'
        key += f'        ({pattern(t, v, "a")}, {pattern(t, v, "b")}) => {" && ".join(terms) if terms else "true"},\n'
    if t.kind == 'enum' and len(t.variants) > 1:
        key += '        _ => false,\n'
    s = f'pub fn oracle_feed(v: &Ty, r: &mut Rec) {{\n    match v {{\n{feed}    }}\n}}\n'
    s += f'pub fn same_key(a: &Ty, b: &Ty) -> bool {{\n    match (a, b) {{\n{key}    }}\n}}\n'
    return s


def emit(modname, cfgid, shape, with_peq=False, sp=None, pre='', t_override=None, xf=None):
    t = t_override or build(shape, with_peq)
    if xf:
        xf(t)
    body = pre + render_type(t, sp) + any_fn(t) + variant_index_fn(t) + oracle_fns(t)
    live = any(f.code != 'i' for v in t.variants for f in v.fields)
    covers = ['same key']
    if live or len(t.variants) > 1:
        covers.append('different key')
    h = Harness('h_hash', unwind=8, covers=covers)
    peq = '    if a == b { assert!(ra.same(&rb), "a == b but different data was hashed"); }\n' if with_peq else ''
    body += h.attrs() + f'''pub fn h_hash() {{
    let a = anyv();
    let b = anyv();
    let ra = rec_of(&a);
    let rb = rec_of(&b);
    assert!(!ra.overflow && !rb.overflow, "recorder capacity exceeded");
    let k = same_key(&a, &b);
    kani::cover!(k, "same key");
    kani::cover!(!k, "different key");
    if k {{
        assert!(ra.same(&rb), "same variant and non-ignored fields fed different data");
    }} else {{
        assert!(!ra.same(&rb), "different variant or non-ignored field fed identical data");
    }}
    // the tail of the record is exactly what the non-ignored fields feed, in declaration order
    let mut ta = Rec::new();
    oracle_feed(&a, &mut ta);
    let mut tb = Rec::new();
    oracle_feed(&b, &mut tb);
    assert!(ra.ends_with(&ta), "fields are not fed in declaration order through their own Hash / method");
    assert!(rb.ends_with(&tb), "fields are not fed in declaration order through their own Hash / method");
    // what precedes it depends on the variant only, and distinguishes variants
    let ha = ra.n - ta.n;
    let hb = rb.n - tb.n;
    if vidx(&a) == vidx(&b) {{
        assert!(ha == hb && ra.same_head(&rb, ha), "prefix differs within one variant");
    }} else {{
        assert!(ha != hb || !ra.same_head(&rb, ha), "two variants share a prefix");
    }}
{peq}}}
'''
    sample = dict(type_definition=render_type(t, sp), oracle=oracle_fns(t))
    return Module(modname, cfgid, body, [h], sample=sample, functions=FUNCTIONS)


# enums with explicit discriminants: the data fed for the variant must still separate variants
DISC_CFGS = [
    (('enum', [('unit', []), ('unit', []), ('unit', [])]), [1, None, 10], None),
    (('enum', [('tuple', ['p']), ('tuple', ['p']), ('tuple', ['p'])]), [2, 0, None], 'u8'),
    (('enum', [('unit', []), ('named', ['p', 'i']), ('unit', [])]), [1, None, 0], 'i8'),
    (('enum', [('unit', []), ('unit', []), ('unit', []), ('unit', [])]), [3, 2, 1, 0], None),
    (('enum', [('tuple', ['w']), ('unit', [])]), [1, 0], 'u16'),
]


def gen(tier, seed):
    mods = _gen(tier, seed)
    n = len(mods)
    for sh, discs, r in DISC_CFGS:
        if r is None and any(fl for _, fl in sh[1]):
            continue
        t = build(sh, False, discs, r)
        mods.append(emit(f'm{n:04d}', f'{S.shape_id(sh)}/discriminants={discs}/repr={r}', sh, False, t_override=t))
        n += 1
    from . import model
    model.TYPE_WRAP = model.generic_header_wrap
    try:
        for sh in [('struct', [('named', ['p', 'i', 'm'])]), ('enum', [('tuple', ['p', 'm']), ('named', ['i', 'p', 'w']), ('unit', [])])]:
            mods.append(emit(f'm{n:04d}', f'{S.shape_id(sh)}/generic header <G, const N> where G: Copy at <u8, 3>', sh, False))
            n += 1
    finally:
        model.TYPE_WRAP = None
    for k, sh in enumerate([('struct', [('named', ['p', 'x', 'w'])]), ('struct', [('tuple', ['x', 'p'])]), ('enum', [('tuple', ['p', 'x']), ('named', ['x', 'm', 'p']), ('unit', [])])]):
        mods.append(emit(f'm{n:04d}', f'{S.shape_id(sh)}/peq={k % 2}/ignore+method on one field', sh, k % 2 == 1))
        n += 1
    for k, sh in enumerate([('struct', [('named', ['i', 'm', 'i'])]), ('struct', [('tuple', ['m', 'i'])]), ('enum', [('tuple', ['i', 'm']), ('named', ['m', 'i', 'i']), ('unit', [])])]):
        mods.append(emit(f'm{n:04d}', f'{S.shape_id(sh)}/peq=0/single fed field with a method', sh, False))
        n += 1
    for sh in [('struct', [('named', ['p', 'd'])]), ('struct', [('tuple', ['d', 'i'])]), ('enum', [('tuple', ['d', 'p']), ('named', ['i', 'd']), ('unit', [])])]:
        mods.append(emit(f'm{n:04d}', f'{S.shape_id(sh)}/peq=0/field type named PhantomData', sh, False, pre=USER_PHANTOM))
        n += 1
    for sh in [('struct', [('named', ['s', 's'])]), ('struct', [('tuple', ['R', 's'])]), ('enum', [('tuple', ['s', 'p']), ('named', ['s', 's', 'R']), ('unit', [])])]:
        mods.append(emit(f'm{n:04d}', f'{S.shape_id(sh)}/peq=0/reference and byte-slice fields', sh, False))
        n += 1
    for sh in S.ignore_run_shapes('p', 'w'):
        mods.append(emit(f'm{n:04d}', f'{S.shape_id(sh)}/peq=0/runs of ignored fields', sh, False))
        n += 1
    # wide shapes (13 fields: positions >= 10 sort before 2 as strings; names not alphabetical): a hasher that keeps the u8 writes in order
    wide_h = '''pub struct WideH { pub b: [u8; 16], pub n: usize }
impl core::hash::Hasher for WideH {
    fn finish(&self) -> u64 { 0 }
    fn write(&mut self, _bytes: &[u8]) {}
    fn write_u8(&mut self, v: u8) { if self.n < 16 { self.b[self.n] = v; } self.n += 1; }
    fn write_isize(&mut self, _v: isize) {}
    fn write_usize(&mut self, _v: usize) {}
    fn write_u64(&mut self, _v: u64) {}
    fn write_i64(&mut self, _v: i64) {}
    fn write_u32(&mut self, _v: u32) {}
}
'''
    for shape in ('tuple', 'named', 'variant'):
        names = S.FNAMES[:S.WIDE]
        ign = [i % 2 == 1 for i in range(S.WIDE)] if shape == 'variant' else [False] * S.WIDE
        if shape == 'tuple':
            decl = '#[derive(Educe)]\n#[educe(Hash)]\npub struct Ty(' + ', '.join('pub u8' for _ in names) + ');\n'
            mk = 'Ty(' + ', '.join(f'v[{i}]' for i in range(S.WIDE)) + ')'
        elif shape == 'named':
            decl = '#[derive(Educe)]\n#[educe(Hash)]\npub struct Ty { ' + ', '.join(f'pub {nm}: u8' for nm in names) + ' }\n'
            mk = 'Ty { ' + ', '.join(f'{nm}: v[{i}]' for i, nm in enumerate(names)) + ' }'
        else:
            decl = '#[derive(Educe)]\n#[educe(Hash)]\npub enum Ty { Alpha, Beta(' + ', '.join(('#[educe(Hash(ignore))] ' if ign[i] else '') + 'u8' for i in range(S.WIDE)) + ') }\n'
            mk = 'Ty::Beta(' + ', '.join(f'v[{i}]' for i in range(S.WIDE)) + ')'
        fed = [i for i in range(S.WIDE) if not ign[i]]
        h = Harness('h_wide', unwind=4, covers=['reached'])
        checks = ''.join(f'    assert!(w.b[{k}] == v[{i}], "write #{k} is not field {i}");\n' for k, i in enumerate(fed))
        body = wide_h + decl + h.attrs() + f'''pub fn h_wide() {{
    let v: [u8; {S.WIDE}] = [{", ".join("kani::any()" for _ in range(S.WIDE))}];
    let x = {mk};
    let mut w = WideH {{ b: [0; 16], n: 0 }};
    core::hash::Hash::hash(&x, &mut w);
    kani::cover!(true, "reached");
    assert!(w.n == {len(fed)}, "number of u8 writes differs from the number of fed fields");
{checks}}}
'''
        mods.append(Module(f'm{n:04d}', f'13-field {shape}/wide: every fed field written once, in declaration order', body, [h], sample=dict(type_definition=decl), functions=FUNCTIONS))
        n += 1
    from .model import Spelling
    for j in range(3):
        sh = [('struct', [('tuple', ['f', 'i', 'w'])]), ('enum', [('named', ['f', 'm']), ('tuple', ['i', 'f']), ('unit', [])]), ('struct', [('named', ['m', 'f'])])][j]
        mods.append(emit(f'm{n:04d}', f'{S.shape_id(sh)}/peq=0/explicitly not ignored #{j}', sh, False, sp=Spelling(force={'notignoreform': j})))
        n += 1
    decl, anyv, vidx = S.big_enum('Hash')
    h = Harness('h_big', unwind=8, covers=['same variant', 'variants 256 apart'])
    body = decl + anyv + vidx + h.attrs() + '''pub fn h_big() {
    let a = anyv();
    let b = anyv();
    let ra = rec_of(&a);
    let rb = rec_of(&b);
    assert!(!ra.overflow && !rb.overflow, "recorder capacity exceeded");
    let (ia, ib) = (vidx(&a), vidx(&b));
    kani::cover!(ia == ib, "same variant");
    kani::cover!(ia + 256 == ib, "variants 256 apart");
    let same_payload = match (&a, &b) { (Big::Last(x), Big::Last(y)) => x == y, _ => true };
    if ia == ib && same_payload {
        assert!(ra.same(&rb), "same variant fed different data");
    }
    if ia != ib {
        assert!(!ra.same(&rb), "two different variants of a 261-variant enum fed identical data");
    }
}
'''
    mods.append(Module(f'm{n:04d}', 'enum with 261 variants (V0..V259, Last(u8)): the variant tag must stay injective beyond 256', body, [h], sample=dict(type_definition='enum Big { V0, .., V259, Last(u8) }'), functions=FUNCTIONS))
    n += 1
    from .runner import empty_enum_module
    mods.append(empty_enum_module(f'm{n:04d}', 'Hash', 'core::hash::Hash', FUNCTIONS))
    return mods


def _gen(tier, seed):
    if tier == 'quick':
        shapes = S.quick_core(CODES) + S.seeded_extra(CODES, seed, 10)
    else:
        shapes = S.struct_shapes(CODES, 4) + S.enum_shapes_thorough(CODES) + S.four_variant_enums(CODES) + S.seeded_extra(CODES, seed, 60)
    mods = []
    for n, sh in enumerate(shapes):
        has_m = any('m' in fl for _, fl in sh[1])
        with_peq = (not has_m) and n % 2 == 0
        mods.append(emit(f'm{n:04d}', f'{S.shape_id(sh)}/peq={int(with_peq)}', sh, with_peq))
    return mods


RULE = ('one config = shape x per-field {plain u8, plain u16, ignored, method hash_m}; optionally PartialEq educed with the same ignore choices. '
        'Both values arbitrary incl. variant; the recording Hasher logs every write_* call as (kind, value), so equality of records is equality of the data fed for any hasher. '
        'Non-trivial = harness passed and both the same-key and the different-key witness were SATISFIED.')
BOUNDS = dict(max_fields='3 (quick), 4 (thorough); plus runs of ignored fields and three 13-field shapes with their own order-keeping hasher', max_variants='3 (quick), 4 (thorough)', recorder_capacity=6, unwind=8, field_types=['u8', 'u16', "&'static u8", "&'static [u8] (sub-slices of a 4-byte static)", 'a user type named PhantomData'],
              outside=['>3 fields/variants', 'field types whose own hashing is not injective', 'unions (C20)'])
ASSUME = ['Kani 0.68 / CBMC 6.11 / CaDiCaL; rustc nightly-2026-08-21 x86_64 dev profile',
          'the variant prefix is checked as "some function of the variant that separates variants", not as a usize index',
          'oracle written from the config by vk/p_c05.py']


def main(tier, seed, keep=False):
    from .runner import run_e1
    return run_e1('C05', tier, seed, gen(tier, seed), RULE, BOUNDS, ASSUME, keep=keep)
