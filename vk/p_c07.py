"""C07 — Clone and clone_from reproduce the source value field by field."""
from .model import F, V, T, Spelling, render_type, pattern, any_fn, construct, variant_index_fn
from .runner import Harness, Module
from . import shapes as S

# b: Bump (clone = +1)   m: Bump with method clone_m (^0x80)   u: plain u8
# l: Unlawful (Copy; clone = +1)   k: Unlawful with method clone_mu (^0x80)
FUNCTIONS = ['<T as ::core::clone::Clone>::clone (educe expansion: struct, enum, union)', '<T as ::core::clone::Clone>::clone_from (educe expansion)',
             'impl ::core::marker::Copy for T (emitted next to Clone)']
FIELD = {'b': ('Bump', None), 'm': ('Bump', 'clone_m'), 'u': ('u8', None), 'l': ('Unlawful', None), 'k': ('Unlawful', 'clone_mu'), 'v': ('u8', 'clone_m8'),
         'd': ('PhantomData', None),
         'M': ('Bump', 'DeepClone::clone')}     # a method whose path ends in `Clone::clone`     # a *user* type named like core's PhantomData (declared in the module): it carries data and is cloned
USER_PHANTOM = '''#[derive(PartialEq, Debug)]
pub struct PhantomData(pub u8);
impl Clone for PhantomData { fn clone(&self) -> Self { PhantomData(self.0.wrapping_add(1)) } }
impl Sym for PhantomData { fn sym() -> Self { PhantomData(kani::any()) } }
'''


def build(shape, copy=False):
    kind, vs = shape
    variants = []
    for k, (vk, fl) in enumerate(vs):
        fields = []
        for i, c in enumerate(fl):
            ty, meth = FIELD[c]
            a = {'Clone': {'method': meth}} if meth else {}
            f = F(ty, S.fname(i, k, len(fl)) if vk == 'named' else None, **a)
            f.code = c
            fields.append(f)
        variants.append(V(S.VNAMES[k], vk, fields))
    traits = [('Clone', {})]
    if copy:
        traits.insert(0, ('Copy', {}))
    t = T(kind, 'Ty', variants, traits)
    t.extra_attrs = '#[derive(PartialEq, Debug)]\n'
    return t


def expected_field(c, e, bitwise):
    if c == 'u':
        return f'*{e}'
    if c == 'v':
        return f'(*{e} ^ 0x80)'
    if c == 'b':
        return f'Bump({e}.0.wrapping_add(1))'
    if c == 'd':
        return f'PhantomData({e}.0.wrapping_add(1))'
    if c in 'mM':
        return f'Bump({e}.0 ^ 0x80)'
    if c == 'l':
        return f'Unlawful({e}.0)' if bitwise else f'Unlawful({e}.0.wrapping_add(1))'
    if c == 'k':
        return f'Unlawful({e}.0 ^ 0x80)'
    raise ValueError(c)


def oracle_fn(t, bitwise):
    arms = ''
    for v in t.variants:
        exprs = [expected_field(f.code, f'a{i}', bitwise) for i, f in enumerate(v.fields)]
        arms += f'        {pattern(t, v, "a")} => {construct(t, v, exprs)},\n'
    return f'pub fn expect_clone(x: &Ty) -> Ty {{\n    match x {{\n{arms}    }}\n}}\n'


def emit(modname, cfgid, shape, copy=False, sp=None, pre='', t_override=None, xf=None):
    t = t_override or build(shape, copy)
    if xf:
        xf(t)
    has_method = any(f.code in 'mkvM' for v in t.variants for f in v.fields)
    bitwise = copy and not has_method
    body = pre + render_type(t, sp) + any_fn(t) + variant_index_fn(t) + oracle_fn(t, bitwise)
    h1 = Harness('h_clone', covers=['reached'])
    copy_use = '    let p = x; let q = x; let _ = (&p, &q); // Copy: used by value twice\n' if copy else ''
    body += h1.attrs() + f'''pub fn h_clone() {{
    let x = anyv();
    let e = expect_clone(&x);
    let y = Clone::clone(&x);
    kani::cover!(true, "reached");
    assert!(vidx(&y) == vidx(&x), "clone changed the variant");
    assert!(y == e, "clone is not the field-wise single application of Clone::clone / the method");
{copy_use}}}
'''
    covers2 = ['reached']
    if len(t.variants) > 1:
        covers2 += ['different variants', 'same variant']
    h2 = Harness('h_clone_from', covers=covers2)
    body += h2.attrs() + '''pub fn h_clone_from() {
    let mut a = anyv();
    let b = anyv();
    let e = expect_clone(&b);
    kani::cover!(true, "reached");
    kani::cover!(vidx(&a) != vidx(&b), "different variants");
    kani::cover!(vidx(&a) == vidx(&b), "same variant");
    Clone::clone_from(&mut a, &b);
    assert!(vidx(&a) == vidx(&b), "clone_from kept the old variant");
    assert!(a == e, "after a.clone_from(&b), a differs from b.clone()");
}
'''
    sample = dict(type_definition=render_type(t, sp), oracle=oracle_fn(t, bitwise))
    return Module(modname, cfgid, body, [h1, h2], sample=sample, functions=FUNCTIONS)


def union_module(modname):
    body = '''#[derive(Educe)]
#[educe(Copy, Clone)]
pub union Un {
    pub a: u8,
    pub b: u16,
    pub c: [u8; 3],
}
''' + Harness('h_union_clone', unwind=6, covers=['reached']).attrs() + '''pub fn h_union_clone() {
    let bytes: [u8; 4] = Sym::sym();
    let x: Un = unsafe { core::mem::transmute(bytes) };
    let y = Clone::clone(&x);
    let mut z: Un = unsafe { core::mem::transmute([0u8; 4]) };
    let src: [u8; 4] = Sym::sym();
    let s: Un = unsafe { core::mem::transmute(src) };
    Clone::clone_from(&mut z, &s);
    let p = x; let q = x; let _ = (&p, &q);
    kani::cover!(true, "reached");
    let yb: [u8; 4] = unsafe { core::mem::transmute(y) };
    let zb: [u8; 4] = unsafe { core::mem::transmute(z) };
    assert!(yb == bytes, "union clone is not a bitwise copy");
    assert!(zb == src, "union clone_from is not a bitwise copy");
}
'''
    return Module(modname, 'union{u8,u16,[u8;3]}/copy', body, [Harness('h_union_clone', unwind=6, covers=['reached'])],
                  sample=dict(type_definition='union Un { a: u8, b: u16, c: [u8; 3] } with #[educe(Copy, Clone)]'), functions=FUNCTIONS)


def generic_module(modname):
    t = T('struct', 'Ty', [V('Alpha', 'named', [F('G', 'x'), F('u8', 'y', Clone={'method': 'clone_m8'}), F('G', 'z')])], [('Clone', {})], generics='<G>')
    body = render_type(t) + Harness('h_clone', covers=['reached']).attrs() + '''pub fn h_clone() {
    let x = Ty::<Bump> { x: Sym::sym(), y: Sym::sym(), z: Sym::sym() };
    let y = Clone::clone(&x);
    kani::cover!(true, "reached");
    assert!(y.x.0 == x.x.0.wrapping_add(1) && y.y == x.y ^ 0x80 && y.z.0 == x.z.0.wrapping_add(1), "generic struct clone");
    let mut a = Ty::<Bump> { x: Sym::sym(), y: Sym::sym(), z: Sym::sym() };
    Clone::clone_from(&mut a, &x);
    assert!(a.x.0 == x.x.0.wrapping_add(1) && a.y == x.y ^ 0x80 && a.z.0 == x.z.0.wrapping_add(1), "generic struct clone_from");
}
'''
    return Module(modname, 'struct[N{G,u:m,G}]<G=Bump>', body, [Harness('h_clone', covers=['reached'])], sample=dict(type_definition=render_type(t)), functions=FUNCTIONS)


def gen(tier, seed):
    plain = ['b', 'm', 'u']
    if tier == 'quick':
        shapes = S.quick_core(plain) + S.seeded_extra(plain, seed, 8)
        copy_shapes = S.quick_core(['l', 'u'])[:18]
        copy_m = [('enum', [('tuple', ['l', 'k']), ('named', ['u', 'l']), ('unit', [])]), ('enum', [('named', ['k']), ('tuple', ['l', 'l', 'u'])]),
                  ('enum', [('unit', []), ('tuple', ['u', 'l', 'k'])]), ('enum', [('tuple', ['v', 'l'])])]
    else:
        shapes = S.struct_shapes(plain, 4) + S.enum_shapes_thorough(plain) + S.four_variant_enums(plain) + S.seeded_extra(plain, seed, 40)
        copy_shapes = S.struct_shapes(['l', 'u']) + S.enum_shapes_thorough(['l', 'u'])
        copy_m = [sh for sh in S.enum_shapes_thorough(['l', 'k', 'u']) if any('k' in fl for _, fl in sh[1])]
    mods = []
    n = 0
    for sh in shapes:
        mods.append(emit(f'm{n:04d}', f'{S.shape_id(sh)}/copy=0', sh, False)); n += 1
    for sh in copy_shapes:
        mods.append(emit(f'm{n:04d}', f'{S.shape_id(sh)}/copy=1', sh, True)); n += 1
    for sh in copy_m:
        mods.append(emit(f'm{n:04d}', f'{S.shape_id(sh)}/copy=1+method', sh, True)); n += 1
    from . import model
    model.TYPE_WRAP = model.generic_header_wrap
    try:
        for sh in [('struct', [('named', ['u', 'b', 'm'])]), ('enum', [('tuple', ['m', 'u']), ('named', ['u', 'b']), ('unit', [])])]:
            mods.append(emit(f'm{n:04d}', f'{S.shape_id(sh)}/copy=0/generic header <G, const N> where G: Copy at <u8, 3>', sh, False)); n += 1
    finally:
        model.TYPE_WRAP = None
    for sh in [('struct', [('tuple', ['b'] * S.WIDE)]), ('struct', [('named', ['b', 'u'] * 6 + ['b'])]), ('enum', [('unit', []), ('tuple', ['u'] * S.WIDE)])]:
        mods.append(emit(f'm{n:04d}', f'{S.shape_id(sh)}/copy=0/wide', sh, False)); n += 1
    for sh in [('struct', [('named', ['u', 'd'])]), ('struct', [('tuple', ['d', 'b'])]), ('enum', [('tuple', ['d', 'u']), ('named', ['b', 'd']), ('unit', [])])]:
        mods.append(emit(f'm{n:04d}', f'{S.shape_id(sh)}/copy=0/field type named PhantomData', sh, False, pre=USER_PHANTOM)); n += 1
    for sh in [('struct', [('named', ['M', 'b'])]), ('struct', [('tuple', ['u', 'M'])]), ('enum', [('tuple', ['M', 'u']), ('named', ['b', 'M']), ('unit', [])])]:
        mods.append(emit(f'm{n:04d}', f'{S.shape_id(sh)}/copy=0/method path ending in Clone::clone', sh, False)); n += 1
    mods.append(union_module(f'm{n:04d}')); n += 1
    mods.append(generic_module(f'm{n:04d}')); n += 1
    decl, anyv, vidx = S.big_enum('Clone')
    hb = Harness('h_big', covers=['reached'])
    bbody = decl + anyv + vidx + hb.attrs() + '''pub fn h_big() {
    let a = anyv();
    let c = a.clone();
    kani::cover!(true, "reached");
    let same = |x: &Big, y: &Big| match (x, y) { (Big::Last(p), Big::Last(q)) => p == q, _ => vidx(x) == vidx(y) };
    assert!(same(&a, &c), "clone of a 261-variant enum changed the value");
}
'''
    mods.append(Module(f'm{n:04d}', 'enum with 261 variants (V0..V259, Last(u8))', bbody, [hb], sample=dict(type_definition='enum Big { V0, .., V259, Last(u8) }'), functions=FUNCTIONS)); n += 1
    from .runner import empty_enum_module
    for el, b in [('Clone', 'Clone'), ('Copy, Clone', 'Copy + Clone')]:
        mods.append(empty_enum_module(f'm{n:04d}', el, b, FUNCTIONS)); n += 1
    return mods


RULE = ('one config = shape x per-field {Bump (clone adds 1), Bump with method (xor 0x80), plain u8; with Copy: Unlawful (Copy but clone adds 1), Unlawful with method (enums)} x Copy on/off; '
        'clone: arbitrary x; clone_from: arbitrary ordered pair (a, b) incl. different variants. Non-trivial = both harnesses passed and their witnesses (reached, same/different variant) SATISFIED.')
BOUNDS = dict(max_fields='3 (quick), 4 (thorough); plus three 13-field shapes', max_variants='3 (quick), 4 (thorough)', outside=['>3 fields/variants', 'field types other than Bump/Unlawful/u8', 'Drop side effects of the overwritten value'])
ASSUME = ['Kani 0.68 / CBMC 6.11 / CaDiCaL; rustc nightly-2026-08-21 x86_64 dev profile',
          'expected clone written from the config (each field transformed exactly once by its own Clone or the method); with Copy and no method: bitwise',
          '"indistinguishable" is checked as structural equality with the expected value of b.clone()']


def main(tier, seed, keep=False):
    from .runner import run_e1
    return run_e1('C07', tier, seed, gen(tier, seed), RULE, BOUNDS, ASSUME, keep=keep)
