"""C03 — ordering is lexicographic over non-ignored fields in rank order."""
import itertools
import random
from .model import F, V, T, Spelling, render_type, pattern, any_fn
from .runner import Harness, Module
from . import shapes as S

IMIN = -9223372036854775808
IMAX = 9223372036854775807
RANKS = [-3, 0, 7, IMIN + 1, IMAX]
MODES = ['pord', 'both_ord', 'both_pord', 'ordonly']
FUNCTIONS = ['<T as ::core::cmp::Ord>::cmp (educe expansion, struct and enum)',
             '<T as ::core::cmp::PartialOrd>::partial_cmp (stand-alone handler and the Some(Ord::cmp) impl emitted by the Ord handler)']


def carrier_of(mode):
    return {'pord': 'PartialOrd', 'both_ord': 'Ord', 'both_pord': 'PartialOrd', 'ordonly': 'Ord'}[mode]


def traits_of(mode):
    return {'pord': ['PartialOrd'], 'both_ord': ['PartialOrd', 'Ord'], 'both_pord': ['PartialOrd', 'Ord'], 'ordonly': ['Ord']}[mode]


def field_of(code, mode, rank, name, lawful=False):
    car = carrier_of(mode)
    partial = mode == 'pord'
    if code == 'n' and not partial:
        code = 'p'
    both = code == 'x'      # `ignore` and `method` on one field: ignored
    if both:
        code = 'i'
    ty = {'p': 'u8', 'n': 'Nan', 'i': 'u8', 'm': 'u8', 'f': 'u8'}[code]
    p = {}
    if code == 'f':
        p['ignore'] = False      # explicitly not ignored
    if code == 'i':
        p['ignore'] = True
    if both:
        p['method'] = 'rev_pcmp' if partial else 'rev_cmp'
    if code == 'm':
        if lawful:
            p['method'] = 'half_pcmp' if partial else 'half_cmp'
        else:
            p['method'] = 'rev_pcmp' if partial else 'rev_cmp'
    if rank is not None and code != 'i':
        p['rank'] = rank
    f = F(ty, name, **({car: p} if p else {}))
    f.code = code
    f.rank = rank if code != 'i' else None
    f.meth = p.get('method')
    return f


def build(shape, ranks, mode, lawful=False):
    """shape: (kind, [(vkind, [codes])]); ranks: list (per variant) of list (per field) of rank|None"""
    kind, vs = shape
    variants = []
    for k, (vk, fl) in enumerate(vs):
        fields = [field_of(c, mode, ranks[k][i] if ranks and ranks[k] else None, S.fname(i, k, len(fl)) if vk == 'named' else None, lawful)
                  for i, c in enumerate(fl)]
        variants.append(V(S.VNAMES[k], vk, fields))
    t = T(kind, 'Ty', variants, [(x, {}) for x in traits_of(mode)])
    t.extra_attrs = '#[derive(PartialEq)]\n' if mode == 'pord' else '#[derive(PartialEq, Eq)]\n'
    return t


def visit_order(v):
    keyed = []
    for i, f in enumerate(v.fields):
        if f.code == 'i':
            continue
        keyed.append((f.rank if f.rank is not None else IMIN + i, i))
    keys = [k for k, _ in keyed]
    if len(set(keys)) != len(keys):
        return None  # duplicate rank: educe rightly rejects; not a config
    return [i for _, i in sorted(keyed)]


def term(f, a, b):
    if f.meth:
        e = f'{f.meth}({a}, {b})'
        return e if f.meth.endswith('pcmp') else f'Some({e})'
    if f.code == 'n':
        return f'PartialOrd::partial_cmp({a}, {b})'
    return f'Some(Ord::cmp({a}, {b}))'


def oracle_fn(t):
    arms = ''
    for v in t.variants:
        order = visit_order(v)
        steps = ''
        for i in order:
            steps += f'            match {term(v.fields[i], f"a{i}", f"b{i}")} {{ Some(Ordering::Equal) => (), other => return other }}\n'
        arms += f'        ({pattern(t, v, "a")}, {pattern(t, v, "b")}) => {{\n{steps}            Some(Ordering::Equal)\n        }}\n'
    if t.kind == 'enum' and len(t.variants) > 1:
        arms += '        _ => Some(vidx(a).cmp(&vidx(b))),\n'
    return f'pub fn oracle_pcmp(a: &Ty, b: &Ty) -> Option<Ordering> {{\n    match (a, b) {{\n{arms}    }}\n}}\n'


def emit(modname, cfgid, shape, ranks, mode, sp=None, laws=False, pre='', t_override=None, xf=None):
    from .model import variant_index_fn
    t = t_override or build(shape, ranks, mode)
    if xf:
        xf(t)
    for v in t.variants:
        if visit_order(v) is None:
            return None
    body = pre + render_type(t, sp) + any_fn(t) + variant_index_fn(t) + oracle_fn(t)
    partial = mode == 'pord'
    if mode == 'ordonly':
        body += 'impl PartialOrd for Ty { fn partial_cmp(&self, o: &Self) -> Option<Ordering> { Some(Ord::cmp(self, o)) } }\n'
    live = [f for v in t.variants for f in v.fields if f.code != 'i']
    covers = ['oracle equal']
    if live or len(t.variants) > 1:
        covers += ['oracle less', 'oracle greater']
    if partial and any(f.code == 'n' or f.meth == 'rev_pcmp' for f in live):
        covers.append('oracle none')
    h = Harness('h_cmp', covers=covers)
    ordpart = '' if partial else '    assert!(Some(Ord::cmp(&a, &b)) == o, "cmp differs from rank-order lexicographic oracle");\n'
    body += h.attrs() + f'''pub fn h_cmp() {{
    let a = anyv();
    let b = anyv();
    let o = oracle_pcmp(&a, &b);
    kani::cover!(o == Some(Ordering::Equal), "oracle equal");
    kani::cover!(o == Some(Ordering::Less), "oracle less");
    kani::cover!(o == Some(Ordering::Greater), "oracle greater");
    kani::cover!(o.is_none(), "oracle none");
    assert!(PartialOrd::partial_cmp(&a, &b) == o, "partial_cmp differs from rank-order lexicographic oracle");
{ordpart}    // the same object on both sides (a pointer-equality shortcut must not hide an incomparable field)
    let oa = oracle_pcmp(&a, &a);
    assert!(PartialOrd::partial_cmp(&a, &a) == oa, "partial_cmp(a, a) by the same reference differs from the oracle");
}}
'''
    hs = [h]
    if laws and live:
        lt = build(shape, ranks, mode, lawful=True)
        if xf:
            xf(lt)
        for v in lt.variants:
            for f in v.fields:
                if f.code == 'n':
                    f.ty = 'u8'
                    f.code = 'p'
        body += 'pub mod law {\n    use super::*;\n' + ''.join('    ' + l + '\n' for l in (render_type(lt, sp) + any_fn(lt)).splitlines())
        if mode == 'ordonly':
            body += '    impl PartialOrd for Ty { fn partial_cmp(&self, o: &Self) -> Option<Ordering> { Some(Ord::cmp(self, o)) } }\n'
        body += '}\n'
        h2 = Harness('h_laws', covers=['chain'])
        cmpf = '|x: &law::Ty, y: &law::Ty| PartialOrd::partial_cmp(x, y).unwrap()' if partial else '|x: &law::Ty, y: &law::Ty| Ord::cmp(x, y)'
        body += h2.attrs() + f'''pub fn h_laws() {{
    let a = law::anyv();
    let b = law::anyv();
    let c = law::anyv();
    let cmp = {cmpf};
    assert!(cmp(&a, &a) == Ordering::Equal, "cmp(a, a) != Equal");
    assert!(cmp(&a, &b) == cmp(&b, &a).reverse(), "antisymmetry");
    let ab = cmp(&a, &b);
    let bc = cmp(&b, &c);
    kani::cover!(ab == Ordering::Less && bc == Ordering::Less, "chain");
    if ab != Ordering::Greater && bc != Ordering::Greater {{
        assert!(cmp(&a, &c) != Ordering::Greater, "transitivity");
    }}
    if ab == Ordering::Equal && bc == Ordering::Equal {{
        assert!(cmp(&a, &c) == Ordering::Equal, "transitivity of Equal");
    }}
}}
'''
        hs.append(h2)
    sample = dict(type_definition=render_type(t, sp), oracle=oracle_fn(t))
    return Module(modname, cfgid, body, hs, sample=sample, functions=FUNCTIONS)


def rank_patterns(fl):
    """rank assignments for one field list (None = default rank)"""
    k = len(fl)
    live = [i for i, c in enumerate(fl) if c != 'i']
    pats = [[None] * k]
    # all explicit: every permutation of the first len(live) pool values
    pool = [-3, 0, 7, IMAX][:len(live)] if len(live) <= 4 else None
    if pool and len(live) >= 1:
        for perm in itertools.permutations(pool):
            r = [None] * k
            for i, rv in zip(live, perm):
                r[i] = rv
            pats.append(r)
    # single explicit rank: -3 (after all defaults) on each live position; MIN+1 / MIN on each live position
    for i in live:
        for rv in (-3, IMAX, IMIN + 1, IMIN, IMIN + 2):
            r = [None] * k
            r[i] = rv
            if r not in pats:
                pats.append(r)
    return pats


def rid(r):
    def one(x):
        if x is None:
            return '_'
        if x == IMIN:
            return 'MIN'
        if x == IMAX:
            return 'MAX'
        if x < -1000:
            return f'MIN+{x - IMIN}'
        return str(x)
    return '[' + ','.join(one(x) for x in r) + ']'


CODES = ['p', 'n', 'i', 'm']


def place(fl, r, n):
    """put one (field list, ranks) into a shape chosen by index n: struct / enum variant, named / tuple"""
    vk = ('named', 'tuple')[n % 2]
    which = (n // 2) % 3
    if which == 0:
        return ('struct', [(vk, fl)]), [r]
    if which == 1:
        return ('enum', [('unit', []), (vk, fl)]), [None, r]
    other = ('tuple', 'named')[n % 2]
    return ('enum', [(vk, fl), (other, ['p', 'm']), ('unit', [])]), [r, [None, None], None]


def configs(tier, seed):
    items = []
    if tier == 'quick':
        lists = [['p', 'p', 'p'], ['p', 'm', 'p'], ['m', 'p', 'i'], ['i', 'p', 'm'], ['n', 'p', 'n'], ['p', 'n', 'm'], ['p', 'i', 'p'],
                 ['m', 'm', 'p'], ['p', 'p'], ['m', 'n'], ['i', 'p'], ['p'], ['m'], ['n'], ['i'], ['i', 'i', 'p']]
        for fl in lists:
            pats = rank_patterns(fl)
            if fl == ['p', 'p', 'p'] or fl == ['p', 'm', 'p']:
                chosen = pats
            else:
                chosen = pats[:1] + pats[1::3][:4]
            for r in chosen:
                items.append((fl, r))
        rng = random.Random(seed * 31337 + 3)
        for _ in range(10):
            fl = [rng.choice(CODES) for _ in range(rng.randint(1, 3))]
            items.append((fl, rng.choice(rank_patterns(fl))))
    else:
        for fl in S.field_lists(CODES, 3):
            for r in rank_patterns(fl):
                items.append((fl, r))
        rng = random.Random(seed * 31337 + 3)
        for _ in range(40):
            fl = [rng.choice(CODES) for _ in range(rng.randint(1, 3))]
            items.append((fl, rng.choice(rank_patterns(fl))))
    # 4-field configs: reversed beyond two fields, for every shape kind
    for n in range(6):
        items.append((['p', 'p', 'p', 'p'], [7, 0, -3, IMIN + 9]))
        items.append((['p', 'm', 'p', 'p'], [IMAX, None, 0, -3]))
    return items


DEGENERATE = [
    [('tuple', ['i']), ('unit', []), ('tuple', ['p'])],
    [('unit', []), ('tuple', ['i', 'i']), ('named', ['p'])],
    [('named', ['i']), ('tuple', ['p']), ('unit', [])],
    [('tuple', []), ('unit', []), ('named', [])],
    [('named', []), ('tuple', []), ('tuple', ['p'])],
]


def gen(tier, seed):
    mods = []
    n = 0
    for idx, (fl, r) in enumerate(configs(tier, seed)):
        shape, ranks = place(fl, r, idx)
        mode = MODES[(idx // 6 + idx) % 4]
        sp = Spelling(seed=seed * 1000 + idx, rand_kinds={'rank', 'paramorder'})
        laws = (idx % (4 if tier == 'quick' else 3) == 0)
        cfgid = f'{S.shape_id(shape)}/ranks={rid(r)}/{mode}'
        m = emit(f'm{n:04d}', cfgid, shape, ranks, mode, sp=sp, laws=laws)
        if m is None:
            continue
        mods.append(m)
        n += 1
    # variants without any compared field (all ignored, `V()`, `V {}`) before / between other variants, in every trait set:
    # the per-variant bookkeeping (implicit discriminant, arms) must not depend on a variant having compared fields
    for k, vs in enumerate(DEGENERATE):
        for mode in MODES:
            shape = ('enum', vs)
            ranks = [None if not fl else [None] * len(fl) for _, fl in vs]
            m = emit(f'm{n:04d}', f'{S.shape_id(shape)}/ranks=default/{mode}/no-compared-field variants', shape, ranks, mode)
            if m is not None:
                mods.append(m)
                n += 1
    for k, (fl, r, mode) in enumerate([(['f', 'p', 'i'], [None, None, None], 'pord'), (['p', 'f'], [7, -3], 'both_ord'), (['f', 'f', 'm'], [None, 0, None], 'ordonly'), (['i', 'f'], [None, None], 'both_pord')]):
        shape, ranks = place(fl, r, k + 2)
        m = emit(f'm{n:04d}', f'{S.shape_id(shape)}/ranks={rid(r)}/{mode}/explicitly not ignored', shape, ranks, mode, sp=Spelling(force={'notignoreform': k % 3, 'ignorefalse': k % 2}))
        if m is not None:
            mods.append(m)
            n += 1
    for k, shape in enumerate(S.ignore_run_shapes('p', 'm')):
        ranks = [[None] * len(fl) for _, fl in shape[1]]
        m = emit(f'm{n:04d}', f'{S.shape_id(shape)}/ranks=default/{MODES[k % 4]}/runs of ignored fields', shape, ranks, MODES[k % 4])
        if m is not None:
            mods.append(m)
            n += 1
    # wide shapes (13 fields: positions >= 10 sort before 2 as strings), declared order and reversed ranks
    for k, (vk, r) in enumerate([('tuple', None), ('named', None), ('tuple', 'rev'), ('evariant', None)]):
        fl = ['p'] * S.WIDE
        shape = ('enum', [('unit', []), ('tuple', fl)]) if vk == 'evariant' else ('struct', [(vk, fl)])
        rk = [S.WIDE - i for i in range(S.WIDE)] if r == 'rev' else [None] * S.WIDE
        ranks = [None, rk] if vk == 'evariant' else [rk]
        m = emit(f'm{n:04d}', f'{S.shape_id(shape)}/ranks={"reversed" if r else "default"}/{MODES[k]}/wide', shape, ranks, MODES[k])
        if m is not None:
            mods.append(m)
            n += 1
    # exactly one compared field, and it carries a method (single-field shortcuts must not forget it): every trait set x shape kind
    k = 0
    for fl in (['m'], ['i', 'm', 'i'], ['m', 'i']):
        for mode in MODES:
            for pl in (0, 1, 3):       # named struct, tuple struct, tuple variant
                if (k + len(fl)) % 2 and tier == 'quick' and not (mode == 'pord' and pl < 2):
                    k += 1
                    continue
                k += 1
                shape, ranks = place(fl, [None] * len(fl), pl)
                m = emit(f'm{n:04d}', f'{S.shape_id(shape)}/ranks=default/{mode}/single compared field with a method', shape, ranks, mode)
                if m is not None:
                    mods.append(m)
                    n += 1
    for k, (fl, mode) in enumerate([(['p', 'x', 'p'], 'pord'), (['x', 'p'], 'both_ord'), (['m', 'x', 'p'], 'ordonly'), (['p', 'x'], 'both_pord'), (['x', 'n', 'p'], 'pord')]):
        shape, ranks = place(fl, [None] * len(fl), k + 1)
        m = emit(f'm{n:04d}', f'{S.shape_id(shape)}/ranks=default/{mode}/ignore+method on one field', shape, ranks, mode)
        if m is not None:
            mods.append(m)
            n += 1
    from . import model
    model.TYPE_WRAP = model.generic_header_wrap
    try:
        for k, (fl, r, mode) in enumerate([(['p', 'm', 'p'], [7, None, -3], 'both_ord'), (['p', 'n', 'i'], [None, None, None], 'pord')]):
            shape, ranks = place(fl, r, 2 * k + 2)     # named struct / enum placements
            m = emit(f'm{n:04d}', f'{S.shape_id(shape)}/ranks={rid(r)}/{mode}/generic header <G, const N> where G: Copy at <u8, 3>', shape, ranks, mode)
            if m is not None:
                mods.append(m)
                n += 1
    finally:
        model.TYPE_WRAP = None
    from .runner import empty_enum_module
    for el, b, pre in [('PartialEq, Eq, PartialOrd, Ord', 'PartialOrd + Ord', ''), ('PartialEq, PartialOrd', 'PartialOrd', ''),
                       ('PartialEq, Eq, Ord', 'Ord', 'impl PartialOrd for Ty { fn partial_cmp(&self, o: &Self) -> Option<Ordering> { Some(Ord::cmp(self, o)) } }\n')]:
        mods.append(empty_enum_module(f'm{n:04d}', el, b, FUNCTIONS, pre=pre))
        n += 1
    return mods


RULE = ('one config = (field list over {plain u8, NaN-like, ignored, method} x rank assignment {default, every permutation of explicit ranks, single explicit incl. isize::MIN/MIN+1/MAX} '
        'x shape {struct, enum variant; named, tuple} x trait set {PartialOrd alone, Ord+PartialOrd with attributes on Ord(..) or on PartialOrd(..), Ord with hand-written PartialOrd}), rank spelled at random among the documented forms; '
        'inside a config both operands are arbitrary (all 2^8 values per field, NaN-like 255, all variant pairs). Non-trivial = all harnesses passed and the Equal/Less/Greater/None witnesses the config admits were SATISFIED.')
BOUNDS = dict(max_fields='3 (plus two 4-field configs per shape kind, 4-5 field runs of ignored fields and four 13-field shapes)', max_variants=3, explicit_ranks=[-3, 0, 7, 'isize::MIN', 'isize::MIN+1', 'isize::MIN+2', 'isize::MAX'],
              outside=['rank values outside the listed ones (parsing arbitrary integers is macro-internal)', '>4 fields', 'field types other than u8 / Nan'])
ASSUME = ['Kani 0.68 / CBMC 6.11 / CaDiCaL; rustc nightly-2026-08-21 x86_64 dev profile',
          'oracle = generator\'s own sort of (explicit rank | isize::MIN + position), written from the config',
          'methods rev_cmp/rev_pcmp are asymmetric on purpose (argument order visible); half_cmp/half_pcmp are the lawful ones used for the law harness']


def main(tier, seed, keep=False):
    from .runner import run_e1
    return run_e1('C03', tier, seed, gen(tier, seed), RULE, BOUNDS, ASSUME, keep=keep)
