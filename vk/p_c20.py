"""C20 — union impls are byte-wise (and only generated behind `unsafe`)."""
import random
from .runner import Harness, Module
from .p_c06 import STUB

FUNCTIONS = ['<U as ::core::cmp::PartialEq>::eq (union)', '<U as ::core::hash::Hash>::hash (union)', '<U as ::core::fmt::Debug>::fmt (union)',
             '<U as ::core::clone::Clone>::clone (union)', '<U as ::core::default::Default>::default (union)']
# type -> (size, align, has internal padding)
TY = {'u8': (1, 1, False), 'u16': (2, 2, False), '[u8; 3]': (3, 1, False), 'u32': (4, 4, False), '(u8, u16)': (4, 2, True),
      'u64': (8, 8, False), '[u8; 5]': (5, 1, False), '[u16; 3]': (6, 2, False), 'G': (1, 1, False),
      '()': (0, 1, False), '[u32; 0]': (0, 4, False)}
FN = ['a', 'b', 'c']

PRE = '''use crate::support::dbg::*;
use core::fmt::{self, Debug, Formatter};
pub static mut ENV: [u8; 4] = [0; 4];
pub fn envt<T: From<u8>>() -> T { T::from(unsafe { ENV[1] }) }
#[repr(C, align(8))]
pub struct Al<const N: usize>(pub [u8; N]);
'''


def layout(tys):
    size = max(TY[t][0] for t in tys)
    align = max(TY[t][1] for t in tys)
    total = (size + align - 1) // align * align
    padded = total != size or any(TY[t][2] for t in tys) or any(TY[t][0] != total for t in tys if False)
    return total, align, padded


def emit(modname, tys, name, generic=False, dbg_bytes=None, default_idx=0, with_default_expr=False, pretty_max=8, decl_wrap=None):
    """name: None (default) | 'Rn' | False.  dbg_bytes: list of concrete byte patterns or 'sym'"""
    n, align, padded = layout(['u8' if t == 'G' else t for t in tys])
    g = '<G: Copy>' if generic else ''
    ga = '<u8>' if generic else ''
    dparams = 'unsafe'
    if name is False:
        dparams += ', name = false'
    elif name:
        dparams += f', name({name})'
    fields = ''
    dflt_ty = tys[default_idx]
    can_default = dflt_ty in ('u8', 'u16', 'u32', 'u64') and not generic
    for i, t in enumerate(tys):
        at = ''
        if can_default and i == default_idx:
            if with_default_expr:
                at = '    #[educe(Default = envt())]\n'
            elif len(tys) > 1:
                at = '    #[educe(Default)]\n'
        fields += f'{at}    pub {FN[i]}: {t},\n'
    traits = f'Debug({dparams}), PartialEq(unsafe), Eq, Hash(unsafe), Copy, Clone' + (', Default' if can_default else '')
    decl = f'#[derive(Educe)]\n#[educe({traits})]\npub union Un{g} {{\n{fields}}}\nconst _: () = assert!(core::mem::size_of::<Un{ga}>() == {n});\n'
    if decl_wrap:
        decl = decl_wrap(decl)      # C19: the derive site moved into a hostile module
    shown = 'Un' if name is None else (name or None)
    if shown:
        orc = f'f.debug_tuple("{shown}").field(&&self.0[..]).finish()'
    else:
        orc = 'Debug::fmt(&self.0[..], f)'
    body = PRE + decl + f'''pub struct Or<'a>(pub &'a [u8; {n}]);
impl<'a> Debug for Or<'a> {{ fn fmt(&self, f: &mut Formatter<'_>) -> fmt::Result {{ {orc} }} }}
fn view(a: &Al<{n}>) -> &Un{ga} {{ unsafe {{ &*(a.0.as_ptr() as *const Un{ga}) }} }}
'''
    hs = []
    h = Harness('h_eq', unwind=n + 2, covers=['equal bytes'] + (['different bytes'] if n > 0 else []))
    body += h.attrs() + f'''pub fn h_eq() {{
    let a = Al::<{n}>(Sym::sym());
    let b = Al::<{n}>(Sym::sym());
    let same = a.0 == b.0;
    kani::cover!(same, "equal bytes");
    kani::cover!(!same, "different bytes");
    assert!((view(&a) == view(&b)) == same, "union == is not equality of the size_of::<Self>() bytes");
    assert!((view(&a) != view(&b)) == !same, "union != is not the negation");
}}
'''
    hs.append(h)
    h = Harness('h_hash', unwind=10, covers=['reached'])
    body += h.attrs() + f'''pub fn h_hash() {{
    let a = Al::<{n}>(Sym::sym());
    let got = rec_of(view(&a));
    let mut want = Rec::new();
    core::hash::Hash::hash(&a.0[..], &mut want);
    kani::cover!(true, "reached");
    assert!(!got.overflow && !want.overflow);
    assert!(got.same(&want), "union hash does not feed the size_of::<Self>() bytes as one byte slice");
}}
'''
    hs.append(h)
    # values inside a slice-like container go through `Hash::hash_slice`: still one length-prefixed byte slice per value
    h = Harness('h_hash_slice', unwind=10, covers=['reached'])
    body += h.attrs() + f'''pub fn h_hash_slice() {{
    let a = Al::<{n}>(Sym::sym());
    let b = Al::<{n}>(Sym::sym());
    let arr = [*view(&a), *view(&b)];
    let got = rec_of(&arr);
    let mut want = Rec::new();
    core::hash::Hash::hash(&[&a.0[..], &b.0[..]][..], &mut want);
    kani::cover!(true, "reached");
    assert!(!got.overflow && !want.overflow);
    assert!(got.same(&want), "a slice of unions does not feed each value as its own size_of::<Self>() byte slice");
}}
'''
    hs.append(h)
    # clone: bytes when there is no padding anywhere, else every field
    if not padded and not generic:
        cmpc = f'    let yb: [u8; {n}] = unsafe {{ core::mem::transmute(y) }};\n    assert!(yb == a.0, "union clone is not a bitwise copy");\n'
    else:
        cmpc = ''.join(f'    assert!(unsafe {{ y.{FN[i]} == x.{FN[i]} }}, "union clone changed field {FN[i]}");\n' for i in range(len(tys)))
    h = Harness('h_clone', unwind=n + 2, covers=['reached'])
    body += h.attrs() + f'''pub fn h_clone() {{
    let a = Al::<{n}>(Sym::sym());
    let x = view(&a);
    let y = Clone::clone(x);
    let p = *x; let q = *x; let _ = (&p, &q);
    kani::cover!(true, "reached");
{cmpc}}}
'''
    hs.append(h)
    if can_default:
        want = f'envt::<{dflt_ty}>()' if with_default_expr else f'<{dflt_ty} as Default>::default()'
        h = Harness('h_default', unwind=6, covers=['reached'])
        body += h.attrs() + f'''pub fn h_default() {{
    unsafe {{ ENV = Sym::sym(); }}
    let d = <Un as Default>::default();
    kani::cover!(true, "reached");
    assert!(unsafe {{ d.{FN[default_idx]} }} == {want}, "union default did not initialise the designated field");
}}
'''
        hs.append(h)
    # Debug
    for k, pat in enumerate(dbg_bytes or []):
        if pat == 'sym':
            init = 'Sym::sym()'
            tag = 'sym'
        else:
            init = '[' + ', '.join(str(x) for x in pat[:n]) + ']'
            tag = f'c{k}'
        for alt in (False, True):
            if alt and (pat == 'sym' or n > pretty_max or n == 0):
                continue
            h = Harness(f'h_debug_{tag}_{"pretty" if alt else "compact"}', unwind=(12 * n + 40) if alt else ((6 * n + 30) if n else 8), covers=['reached'], stubs=[STUB] if alt else [])
            body += h.attrs() + f'''pub fn {h.name}() {{
    let a = Al::<{n}>({init});
    let (b1, r1) = render(view(&a), {str(alt).lower()});
    let (b2, r2) = render(&Or(&a.0), {str(alt).lower()});
    kani::cover!(true, "reached");
    assert!(r1.is_ok() && r2.is_ok() && !b1.overflow && !b2.overflow);
    assert!(b1.same(&b2), "union Debug is not the byte list of size_of::<Self>() bytes under the effective name");
}}
'''
            hs.append(h)
    cfgid = f'union{{{", ".join(tys)}}}/size={n}/name={name}/generic={int(generic)}/default@{default_idx}{"=expr" if with_default_expr else ""}/dbg={"+".join("sym" if p == "sym" else "fixed" for p in (dbg_bytes or []))}'
    return Module(modname, cfgid, body, hs, sample=dict(type_definition=decl, size=n), functions=FUNCTIONS)


PATS = [[0] * 8, [255] * 8, [1, 20, 133, 7, 99, 250, 10, 64]]


def gen(tier, seed):
    layouts = [['u8'], ['u16'], ['u8', 'u16'], ['[u8; 3]'], ['[u8; 3]', 'u16'], ['u32', 'u8'], ['(u8, u16)', 'u8'], ['[u8; 5]', 'u16', 'u8'],
               ['u64', 'u8'], ['[u16; 3]', 'u32'], ['u16', 'u32', '[u8; 3]'], ['u8', 'u8'], ['[u8; 5]'], ['()', '[u32; 0]']]
    mods = []
    n = 0
    rng = random.Random(seed * 41 + 7)
    for li, tys in enumerate(layouts):
        name = [None, 'Rn', False][li % 3]
        if tier == 'quick':
            size, align, _ = layout(tys)
            if size != align and li % 2 == 0:
                name = False      # the bare form on a layout whose size differs from its alignment
            pats = [PATS[li % 3]]
            mods.append(emit(f'm{n:04d}', tys, name, dbg_bytes=pats, default_idx=li % len(tys), with_default_expr=li % 2 == 1, pretty_max=4)); n += 1
        else:
            for nm in (None, 'Rn', False):
                size = layout(tys)[0]
                pats = list(PATS) + (['sym'] if size == 1 else [])
                mods.append(emit(f'm{n:04d}', tys, nm, dbg_bytes=pats, default_idx=(li + (0 if nm is None else 1)) % len(tys), with_default_expr=nm is not None)); n += 1
    mods.append(emit(f'm{n:04d}', ['G', 'u8'], None, generic=True, dbg_bytes=[PATS[2]])); n += 1
    if tier == 'quick':
        mods.append(emit(f'm{n:04d}', ['u8'], 'Rn', dbg_bytes=['sym'])); n += 1
        tys = rng.choice(layouts)
        mods.append(emit(f'm{n:04d}', tys, rng.choice([None, 'Rn', False]), dbg_bytes=[[rng.randrange(256) for _ in range(8)]], default_idx=0, pretty_max=4)); n += 1
    else:
        mods.append(emit(f'm{n:04d}', ['u16'], False, dbg_bytes=['sym'])); n += 1
    return mods


RULE = ('one config = union layout (1-3 fields from u8,u16,[u8;3],u32,(u8,u16),u64,[u8;5],[u16;3]; sizes 0..8 (one zero-sized union), alignments 1..8, one generic at u8) x name {default, renamed, false} x default designation; '
        'eq/hash/clone: every byte of the value arbitrary (the union is viewed in place over an aligned byte array, so no byte is uninitialised); Default under a symbolic environment; '
        'Debug compared with debug_tuple(name).field(&bytes) / Debug::fmt(bytes) on fixed byte patterns (0x00.., 0xFF.., a ramp) in compact mode for every size and in {:#?} mode for sizes <= 4 (quick) / <= 8 (thorough), and with arbitrary bytes for size 1 in compact mode. '
        'Non-trivial = all harnesses passed and their witnesses SATISFIED.')
BOUNDS = dict(sizes='0..8', max_fields=3, debug_bytes='fixed patterns per harness; arbitrary for size 1 (decimal formatting of symbolic u8 costs ~80 s per byte)',
              outside=['that the impls are generated only behind `unsafe` (a rejection fact, C13 territory)', 'unions larger than 8 bytes', 'values containing uninitialised padding'])
ASSUME = ['Kani 0.68 / CBMC 6.11 / CaDiCaL; rustc nightly-2026-08-21 x86_64 layout', 'STUB in {:#?} harnesses: CharSearcher::next_match model (validated natively in the C06 run and here)',
          'recording Hasher packs slices up to 8 bytes exactly']


def main(tier, seed, keep=False):
    from .runner import run_e1
    return run_e1('C20', tier, seed, gen(tier, seed), RULE, BOUNDS, ASSUME, need_stubbing=True, keep=keep,
                  harness_timeout=600 if tier == 'quick' else 1500, validate_stub=True)
