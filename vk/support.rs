// Support code compiled into every generated harness crate (copied verbatim by the generator).
// Dual mode: under Kani the real `kani` crate is used; natively a small shim replays the byte
// vectors printed by `--concrete-playback=print`, so the very same harness function runs as an
// ordinary program against the ordinary build of /repo's educe.
#![allow(dead_code, unused_imports, unused_macros, clippy::all)]

#[cfg(not(kani))]
pub mod kani {
    use core::cell::RefCell;
    thread_local! {
        static VALS: RefCell<Vec<Vec<u8>>> = RefCell::new(Vec::new());
        static POS: RefCell<usize> = RefCell::new(0);
        pub static EXHAUSTED: RefCell<bool> = RefCell::new(false);
    }
    pub fn load(spec: &str) {
        let mut v = Vec::new();
        for part in spec.split(';') {
            let part = part.trim();
            if part.is_empty() {
                continue;
            }
            v.push(part.split(',').map(|b| b.trim().parse::<u8>().unwrap()).collect::<Vec<u8>>());
        }
        VALS.with(|c| *c.borrow_mut() = v);
        POS.with(|p| *p.borrow_mut() = 0);
    }
    fn next(n: usize) -> Vec<u8> {
        let i = POS.with(|p| {
            let mut p = p.borrow_mut();
            *p += 1;
            *p - 1
        });
        VALS.with(|c| {
            let c = c.borrow();
            if i < c.len() {
                let mut v = c[i].clone();
                v.resize(n, 0);
                v
            } else {
                EXHAUSTED.with(|e| *e.borrow_mut() = true);
                vec![0; n]
            }
        })
    }
    pub trait ShimAny {
        fn shim_any() -> Self;
    }
    macro_rules! shim_int {
        ($($t:ty),*) => {$(
            impl ShimAny for $t {
                fn shim_any() -> Self {
                    let v = next(core::mem::size_of::<$t>());
                    let mut a = [0u8; core::mem::size_of::<$t>()];
                    a.copy_from_slice(&v);
                    <$t>::from_le_bytes(a)
                }
            }
        )*};
    }
    shim_int!(u8, u16, u32, u64, u128, usize, i8, i16, i32, i64, i128, isize);
    pub fn any<T: ShimAny>() -> T {
        T::shim_any()
    }
    pub struct AssumeFailed;
    pub fn assume(c: bool) {
        if !c {
            crate::stdx::panic::resume_unwind(Box::new(AssumeFailed));
        }
    }
    #[macro_export]
    macro_rules! kani_cover_shim {
        ($($t:tt)*) => {};
    }
    pub use crate::kani_cover_shim as cover;
}

#[cfg(kani)]
pub use ::kani;

#[cfg(not(kani))]
pub use self::kani as kani_shim;

pub mod sup {
    #[cfg(not(kani))]
    use super::kani;
    use core::cmp::Ordering;

    /// Arbitrary value built only from integer `kani::any()` calls, so the order of nondet
    /// draws is identical under Kani and under the native replay shim.
    pub trait Sym {
        fn sym() -> Self;
    }
    macro_rules! sym_int {
        ($($t:ty),*) => {$( impl Sym for $t { #[inline] fn sym() -> Self { kani::any::<$t>() } } )*};
    }
    sym_int!(u8, u16, u32, u64, i8, i16, i32, i64, usize, isize);
    impl Sym for bool {
        #[inline]
        fn sym() -> Self {
            kani::any::<u8>() & 1 == 1
        }
    }
    impl Sym for () {
        fn sym() -> Self {}
    }
    impl<A: Sym, B: Sym> Sym for (A, B) {
        fn sym() -> Self {
            let a = A::sym();
            let b = B::sym();
            (a, b)
        }
    }
    impl<const N: usize> Sym for [u8; N] {
        fn sym() -> Self {
            let mut a = [0u8; N];
            let mut i = 0;
            while i < N {
                a[i] = kani::any::<u8>();
                i += 1;
            }
            a
        }
    }
    impl<T: Sym> Sym for Option<T> {
        fn sym() -> Self {
            let s = kani::any::<u8>() & 1 == 1;
            let v = T::sym();
            if s {
                Some(v)
            } else {
                None
            }
        }
    }
    impl Sym for char {
        fn sym() -> Self {
            // three representative planes: ASCII, BMP below the surrogates, top of range
            let v = kani::any::<u8>();
            let k = kani::any::<u8>() % 3;
            match k {
                0 => v as char,
                1 => char::from_u32(0xD700 + v as u32).unwrap_or('x'),
                _ => char::from_u32(0x10FF00 + v as u32).unwrap_or('y'),
            }
        }
    }
    impl Sym for core::num::NonZeroU8 {
        fn sym() -> Self {
            let v = kani::any::<u8>();
            core::num::NonZeroU8::new(v | 1).unwrap()
        }
    }
    pub static STATIC_U8S: [u8; 4] = [0, 1, 7, 255];
    impl Sym for &'static u8 {
        fn sym() -> Self {
            let i = kani::any::<u8>() & 3;
            &STATIC_U8S[i as usize]
        }
    }

    impl Sym for &'static mut u8 {
        fn sym() -> Self {
            Box::leak(Box::new(kani::any::<u8>()))
        }
    }
    pub static STATIC_BYTES: [u8; 4] = [1, 2, 3, 4];
    impl Sym for &'static [u8] {
        fn sym() -> Self {
            let i = (kani::any::<u8>() & 3) as usize;
            let j = (kani::any::<u8>() & 3) as usize;
            if i <= j { &STATIC_BYTES[i..j] } else { &STATIC_BYTES[..0] }
        }
    }
    pub static STATIC_REFS: [&'static u8; 4] = [&STATIC_U8S[3], &STATIC_U8S[2], &STATIC_U8S[1], &STATIC_U8S[0]];
    impl Sym for &'static &'static u8 {
        fn sym() -> Self {
            let i = kani::any::<u8>() & 3;
            &STATIC_REFS[i as usize]
        }
    }

    /// `==` modulo 4: shows that an impl uses the field type's own `==`, not its bytes.
    #[derive(Clone, Copy, Debug)]
    pub struct Mod4(pub u8);
    impl PartialEq for Mod4 {
        fn eq(&self, o: &Self) -> bool {
            self.0 % 4 == o.0 % 4
        }
    }
    impl Eq for Mod4 {}
    impl PartialOrd for Mod4 {
        fn partial_cmp(&self, o: &Self) -> Option<Ordering> {
            Some(self.cmp(o))
        }
    }
    impl Ord for Mod4 {
        fn cmp(&self, o: &Self) -> Ordering {
            (self.0 % 4).cmp(&(o.0 % 4))
        }
    }
    impl core::hash::Hash for Mod4 {
        fn hash<H: core::hash::Hasher>(&self, h: &mut H) {
            h.write_u8(self.0 % 4)
        }
    }
    impl Sym for Mod4 {
        fn sym() -> Self {
            Mod4(kani::any())
        }
    }

    /// NaN-like: 255 is unequal to and incomparable with everything, itself included.
    #[derive(Clone, Copy, Debug)]
    pub struct Nan(pub u8);
    impl PartialEq for Nan {
        fn eq(&self, o: &Self) -> bool {
            self.0 != 255 && o.0 != 255 && self.0 == o.0
        }
    }
    impl PartialOrd for Nan {
        fn partial_cmp(&self, o: &Self) -> Option<Ordering> {
            if self.0 == 255 || o.0 == 255 {
                None
            } else {
                Some(self.0.cmp(&o.0))
            }
        }
    }
    impl Sym for Nan {
        fn sym() -> Self {
            Nan(kani::any())
        }
    }

    /// `clone` adds one: distinguishes zero, one and two applications of Clone.
    #[derive(Debug, PartialEq, Eq)]
    pub struct Bump(pub u8);
    impl Clone for Bump {
        fn clone(&self) -> Self {
            Bump(self.0.wrapping_add(1))
        }
    }
    impl Sym for Bump {
        fn sym() -> Self {
            Bump(kani::any())
        }
    }

    /// `Copy`, but `clone` adds one: distinguishes a bitwise copy from delegation to Clone.
    #[derive(Debug, PartialEq, Eq, Copy)]
    pub struct Unlawful(pub u8);
    impl Clone for Unlawful {
        fn clone(&self) -> Self {
            Unlawful(self.0.wrapping_add(1))
        }
    }
    impl Sym for Unlawful {
        fn sym() -> Self {
            Unlawful(kani::any())
        }
    }

    // ---- asymmetric custom methods: swapped arguments and "method ignored" are visible ----
    pub fn eq_le(a: &u8, b: &u8) -> bool {
        *a <= *b
    }
    pub fn eq_half(a: &u8, b: &u8) -> bool {
        *a / 2 == *b / 2
    }
    pub fn rev_cmp(a: &u8, b: &u8) -> Ordering {
        b.cmp(a)
    }
    pub fn rev_pcmp(a: &u8, b: &u8) -> Option<Ordering> {
        if *a == 254 && *b == 253 {
            None
        } else {
            Some(b.cmp(a))
        }
    }
    pub fn half_cmp(a: &u8, b: &u8) -> Ordering {
        (*a / 2).cmp(&(*b / 2))
    }
    pub fn half_pcmp(a: &u8, b: &u8) -> Option<Ordering> {
        Some((*a / 2).cmp(&(*b / 2)))
    }
    pub fn hash_m<H: core::hash::Hasher>(v: &u8, h: &mut H) {
        h.write_u16(!(*v as u16));
    }
    pub fn clone_m(v: &Bump) -> Bump {
        Bump(v.0 ^ 0x80)
    }
    /// a custom method whose *path* ends like the trait method's (`DeepClone::clone`): it is still the user's function
    pub struct DeepClone;
    impl DeepClone {
        pub fn clone(v: &Bump) -> Bump {
            Bump(v.0 ^ 0x80)
        }
    }
    pub fn clone_mu(v: &Unlawful) -> Unlawful {
        Unlawful(v.0 ^ 0x80)
    }
    pub fn clone_m8(v: &u8) -> u8 {
        *v ^ 0x80
    }

    // ---- library types a handler might recognise by name ----
    impl<T> Sym for core::marker::PhantomData<T> {
        fn sym() -> Self {
            core::marker::PhantomData
        }
    }
    pub fn ph_never<T>(_a: &T, _b: &T) -> bool {
        false
    }

    // ---- a field type whose *inherent* methods are named like the trait methods and misbehave: generated code must reach the
    //      trait impls (`::core::clone::Clone::clone(x)`), never `x.clone()` ----
    pub struct Inh(pub u8);
    impl Inh {
        pub fn clone(&self) -> Inh { Inh(self.0 ^ 0xff) }
        pub fn clone_from(&mut self, _s: &Inh) { self.0 = 0xee; }
        pub fn eq(&self, _o: &Inh) -> bool { self.0 == 77 }
        pub fn ne(&self, _o: &Inh) -> bool { self.0 == 78 }
        pub fn cmp(&self, _o: &Inh) -> Ordering { Ordering::Greater }
        pub fn partial_cmp(&self, _o: &Inh) -> Option<Ordering> { None }
        pub fn hash<HH>(&self, _s: &mut HH) {}
        pub fn fmt(&self, f: &mut core::fmt::Formatter<'_>) -> core::fmt::Result { f.write_str("WRONG") }
        pub fn default() -> Inh { Inh(0xdd) }
        pub fn into(self) -> u16 { 0xbad }
    }
    impl From<Inh> for u16 { fn from(i: Inh) -> u16 { i.0 as u16 + 256 } }
    impl Clone for Inh { fn clone(&self) -> Self { Inh(self.0) } }
    impl Copy for Inh {}
    impl PartialEq for Inh { fn eq(&self, o: &Self) -> bool { self.0 == o.0 } }
    impl Eq for Inh {}
    impl PartialOrd for Inh { fn partial_cmp(&self, o: &Self) -> Option<Ordering> { Some(u8::cmp(&self.0, &o.0)) } }
    impl Ord for Inh { fn cmp(&self, o: &Self) -> Ordering { u8::cmp(&self.0, &o.0) } }
    impl core::hash::Hash for Inh { fn hash<H: core::hash::Hasher>(&self, h: &mut H) { h.write_u8(self.0) } }
    impl core::fmt::Debug for Inh { fn fmt(&self, f: &mut core::fmt::Formatter<'_>) -> core::fmt::Result { f.write_str("i") } }
    impl Default for Inh { fn default() -> Self { Inh(5) } }
    impl Sym for Inh {
        fn sym() -> Self {
            Inh(kani::any())
        }
    }

    // ---- the same methods behind generic functions: reached only through paths with generic arguments (`g::eq_le::<u8>`) ----
    pub mod g {
        use super::*;
        pub trait AsU8 {
            fn as_u8(&self) -> u8;
        }
        impl AsU8 for u8 {
            fn as_u8(&self) -> u8 {
                *self
            }
        }
        pub trait CloneM {
            fn clone_m(&self) -> Self;
        }
        impl CloneM for Bump {
            fn clone_m(&self) -> Self {
                super::clone_m(self)
            }
        }
        impl CloneM for Unlawful {
            fn clone_m(&self) -> Self {
                super::clone_mu(self)
            }
        }
        impl CloneM for u8 {
            fn clone_m(&self) -> Self {
                super::clone_m8(self)
            }
        }
        pub fn eq_le<T: AsU8>(a: &T, b: &T) -> bool {
            super::eq_le(&a.as_u8(), &b.as_u8())
        }
        pub fn eq_half<T: AsU8>(a: &T, b: &T) -> bool {
            super::eq_half(&a.as_u8(), &b.as_u8())
        }
        pub fn rev_cmp<T: AsU8>(a: &T, b: &T) -> Ordering {
            super::rev_cmp(&a.as_u8(), &b.as_u8())
        }
        pub fn rev_pcmp<T: AsU8>(a: &T, b: &T) -> Option<Ordering> {
            super::rev_pcmp(&a.as_u8(), &b.as_u8())
        }
        pub fn half_cmp<T: AsU8>(a: &T, b: &T) -> Ordering {
            super::half_cmp(&a.as_u8(), &b.as_u8())
        }
        pub fn half_pcmp<T: AsU8>(a: &T, b: &T) -> Option<Ordering> {
            super::half_pcmp(&a.as_u8(), &b.as_u8())
        }
        pub fn hash_m<T: AsU8, H: core::hash::Hasher>(v: &T, h: &mut H) {
            super::hash_m(&v.as_u8(), h)
        }
        pub fn clone_m<T: CloneM>(v: &T) -> T {
            v.clone_m()
        }
    }

    // ---- type-agnostic methods used when a trait is added only as a bystander (C15) ----
    pub fn eq_any<T>(_a: &T, _b: &T) -> bool {
        true
    }
    pub fn cmp_any<T>(_a: &T, _b: &T) -> Ordering {
        Ordering::Equal
    }
    pub fn pcmp_any<T>(_a: &T, _b: &T) -> Option<Ordering> {
        Some(Ordering::Equal)
    }
    pub fn hash_any<T, H: core::hash::Hasher>(_v: &T, h: &mut H) {
        h.write_u8(9)
    }
    pub fn fmt_any<T>(_v: &T, f: &mut core::fmt::Formatter<'_>) -> core::fmt::Result {
        f.write_str("?")
    }

    // ---- recording hasher: the recorded sequence *is* the data fed, for any hasher ----
    pub const REC_CAP: usize = 6;
    #[derive(Clone, Copy, PartialEq, Eq, Debug)]
    pub struct Rec {
        pub ev: [(u8, u64); REC_CAP],
        pub n: usize,
        pub overflow: bool,
    }
    impl Rec {
        pub fn new() -> Self {
            Rec { ev: [(0, 0); REC_CAP], n: 0, overflow: false }
        }
        #[inline]
        fn push(&mut self, kind: u8, v: u64) {
            if self.n < REC_CAP {
                self.ev[self.n] = (kind, v);
                self.n += 1;
            } else {
                self.overflow = true;
            }
        }
        pub fn same(&self, o: &Rec) -> bool {
            if self.n != o.n {
                return false;
            }
            let mut i = 0;
            while i < REC_CAP {
                if i < self.n && self.ev[i] != o.ev[i] {
                    return false;
                }
                i += 1;
            }
            true
        }
        /// do the last `k` events of self equal all `k` events of `tail`?
        pub fn ends_with(&self, tail: &Rec) -> bool {
            if tail.n > self.n {
                return false;
            }
            let off = self.n - tail.n;
            let mut i = 0;
            while i < REC_CAP {
                if i < tail.n && self.ev[off + i] != tail.ev[i] {
                    return false;
                }
                i += 1;
            }
            true
        }
        /// are the first `k` events equal?
        pub fn same_head(&self, o: &Rec, k: usize) -> bool {
            let mut i = 0;
            while i < REC_CAP {
                if i < k && self.ev[i] != o.ev[i] {
                    return false;
                }
                i += 1;
            }
            true
        }
    }
    impl core::hash::Hasher for Rec {
        fn finish(&self) -> u64 {
            0
        }
        fn write(&mut self, bytes: &[u8]) {
            // one event per slice: (200 + len, packed bytes) — slices up to 8 bytes are exact
            let mut v: u64 = 0;
            let mut i = 0;
            while i < bytes.len() {
                v = (v << 8) | bytes[i] as u64;
                i += 1;
            }
            self.push(200u8.wrapping_add(bytes.len() as u8), v);
        }
        fn write_u8(&mut self, i: u8) {
            self.push(1, i as u64)
        }
        fn write_u16(&mut self, i: u16) {
            self.push(2, i as u64)
        }
        fn write_u32(&mut self, i: u32) {
            self.push(3, i as u64)
        }
        fn write_u64(&mut self, i: u64) {
            self.push(4, i)
        }
        fn write_usize(&mut self, i: usize) {
            self.push(5, i as u64)
        }
        fn write_i8(&mut self, i: i8) {
            self.push(6, i as u64)
        }
        fn write_i16(&mut self, i: i16) {
            self.push(7, i as u64)
        }
        fn write_i32(&mut self, i: i32) {
            self.push(8, i as u64)
        }
        fn write_i64(&mut self, i: i64) {
            self.push(9, i as u64)
        }
        fn write_isize(&mut self, i: isize) {
            self.push(10, i as u64)
        }
        fn write_u128(&mut self, i: u128) {
            self.push(11, i as u64);
            self.push(11, (i >> 64) as u64)
        }
        fn write_i128(&mut self, i: i128) {
            self.push(12, i as u64);
            self.push(12, (i >> 64) as u64)
        }
    }
    pub fn rec_of<T: core::hash::Hash>(v: &T) -> Rec {
        let mut r = Rec::new();
        v.hash(&mut r);
        r
    }
}

/// Debug machinery (C06, C20): a fixed-capacity `fmt::Write`, direct `Formatter::new`, field
/// types whose Debug prints a concrete token and logs (id, value) to a side channel, and the
/// ASCII-needle model of `CharSearcher::next_match` used as a Kani stub in `{:#?}` mode.
pub mod dbg {
    #[cfg(not(kani))]
    use super::kani;
    use super::sup::Sym;
    use core::fmt::{self, Debug, Formatter, Write};
    #[cfg(kani)]
    use core::fmt::FormattingOptions;

    pub const BUF_CAP: usize = 256;
    pub struct Buf {
        pub b: [u8; BUF_CAP],
        pub n: usize,
        pub overflow: bool,
    }
    impl Buf {
        pub fn new() -> Self {
            Buf { b: [0; BUF_CAP], n: 0, overflow: false }
        }
        pub fn same(&self, o: &Buf) -> bool {
            if self.n != o.n {
                return false;
            }
            let mut i = 0;
            while i < self.n {
                if self.b[i] != o.b[i] {
                    return false;
                }
                i += 1;
            }
            true
        }
    }
    impl Write for Buf {
        fn write_str(&mut self, s: &str) -> fmt::Result {
            let bytes = s.as_bytes();
            let mut i = 0;
            while i < bytes.len() {
                if self.n < BUF_CAP {
                    self.b[self.n] = bytes[i];
                    self.n += 1;
                } else {
                    self.overflow = true;
                }
                i += 1;
            }
            Ok(())
        }
    }

    pub const LOG_CAP: usize = 8;
    pub static mut LOG: [(u8, u8); LOG_CAP] = [(0, 0); LOG_CAP];
    pub static mut LOG_N: usize = 0;
    pub fn log_reset() {
        unsafe {
            LOG_N = 0;
            LOG = [(0, 0); LOG_CAP];
        }
    }
    pub fn log_push(id: u8, v: u8) {
        unsafe {
            if LOG_N < LOG_CAP {
                LOG[LOG_N] = (id, v);
            }
            LOG_N += 1;
        }
    }
    pub fn log_take() -> ([(u8, u8); LOG_CAP], usize) {
        unsafe { (LOG, LOG_N) }
    }

    /// Field value type: Debug prints the fixed token `v<ID>` and logs (ID, value).
    #[derive(Clone, Copy)]
    pub struct Val<const ID: u8>(pub u8);
    const TOK: [&str; 16] = ["v0", "v1", "v2", "v3", "v4", "v5", "v6", "v7", "v8", "v9", "va", "vb", "vc", "vd", "ve", "vf"];
    const TOK_ALT: [&str; 16] = ["V0", "V1", "V2", "V3", "V4", "V5", "V6", "V7", "V8", "V9", "Va", "Vb", "Vc", "Vd", "Ve", "Vf"];
    impl<const ID: u8> Debug for Val<ID> {
        fn fmt(&self, f: &mut Formatter<'_>) -> fmt::Result {
            log_push(ID, self.0);
            // the token depends on the formatter's alternate flag: a value re-formatted with a fresh `{:?}` inside `{:#?}` shows
            f.write_str(if f.alternate() { TOK_ALT[(ID & 15) as usize] } else { TOK[(ID & 15) as usize] })
        }
    }
    impl<const ID: u8> Sym for Val<ID> {
        fn sym() -> Self {
            Val(kani::any())
        }
    }
    /// custom formatting method: prints a different token and logs with bit 7 set in the id
    pub fn fmt_m<const ID: u8>(v: &Val<ID>, f: &mut Formatter<'_>) -> fmt::Result {
        log_push(ID | 0x80, v.0);
        f.write_str("Mm")
    }
    /// two-line output: exercises PadAdapter's per-line indentation
    pub fn fmt_nl<const ID: u8>(v: &Val<ID>, f: &mut Formatter<'_>) -> fmt::Result {
        log_push(ID | 0x40, v.0);
        f.write_str("p\nq")
    }

    #[cfg(kani)]
    pub fn render<T: Debug>(x: &T, alternate: bool) -> (Buf, fmt::Result) {
        let mut buf = Buf::new();
        let mut opts = FormattingOptions::new();
        opts.alternate(alternate);
        let r = {
            let mut f = Formatter::new(&mut buf, opts);
            Debug::fmt(x, &mut f)
        };
        (buf, r)
    }
    #[cfg(not(kani))]
    pub fn render<T: Debug>(x: &T, alternate: bool) -> (Buf, fmt::Result) {
        let mut buf = Buf::new();
        let r = if alternate { write!(buf, "{:#?}", x) } else { write!(buf, "{:?}", x) };
        (buf, r)
    }

    /// Mirror of `core::str::pattern::CharSearcher` (same field types in the same order, so the
    /// same rustc lays it out identically; checked by `h_stub_*` harnesses against the real one).
    pub struct CharSearcherMirror<'a> {
        pub haystack: &'a str,
        pub finger: usize,
        pub finger_back: usize,
        pub needle: char,
        pub utf8_size: u8,
        pub utf8_encoded: [u8; 4],
    }

    #[cfg(any(kani, stubcheck))]
    pub fn next_match_stub<'a>(s: &mut core::str::pattern::CharSearcher<'a>) -> Option<(usize, usize)>
    where
        'a: 'a,
    {
        let m: &mut CharSearcherMirror<'a> = unsafe { &mut *(s as *mut core::str::pattern::CharSearcher<'a> as *mut CharSearcherMirror<'a>) };
        // model valid for 1-byte (ASCII) needles only
        assert!(m.utf8_size == 1);
        let bytes = m.haystack.as_bytes();
        let mut i = m.finger;
        while i < m.finger_back {
            if bytes[i] == m.utf8_encoded[0] {
                m.finger = i + 1;
                return Some((i, i + 1));
            }
            i += 1;
        }
        m.finger = m.finger_back;
        None
    }

    /// Native differential validation of the model against the real function, run with Kani's
    /// own toolchain (`--cfg stubcheck`): every string of length <= 7 over {a, b, \n}.
    #[cfg(stubcheck)]
    pub fn stub_selfcheck() -> usize {
        use core::str::pattern::{Pattern, Searcher};
        assert!(core::mem::size_of::<core::str::pattern::CharSearcher<'static>>() == core::mem::size_of::<CharSearcherMirror<'static>>());
        let alphabet = [b'a', b'b', b'\n'];
        let mut count = 0usize;
        for len in 0..8usize {
            let total = 3usize.pow(len as u32);
            for code in 0..total {
                let mut v = Vec::with_capacity(len);
                let mut c = code;
                for _ in 0..len {
                    v.push(alphabet[c % 3]);
                    c /= 3;
                }
                let s = String::from_utf8(v).unwrap();
                let mut real = '\n'.into_searcher(s.as_str());
                let mut model = '\n'.into_searcher(s.as_str());
                loop {
                    let a = real.next_match();
                    let m = next_match_stub(&mut model);
                    assert!(a == m, "CharSearcher::next_match model disagrees with the real function on {:?}", s);
                    count += 1;
                    if a.is_none() {
                        break;
                    }
                }
            }
        }
        count
    }
}
