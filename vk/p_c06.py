"""C06 — Debug renders the effective shape exactly like core::fmt's builders."""
import itertools
import random
from .model import F, V, T, Spelling, render_type, pattern, any_fn, variant_index_fn
from .runner import Harness, Module
from . import shapes as S

FUNCTIONS = ['<T as ::core::fmt::Debug>::fmt (educe expansion: struct and enum), run through Formatter::new with alternate off and on',
             'Educe__RawString / Educe__DebugField wrapper impls emitted inside fmt']
STUB = ('<core::str::pattern::CharSearcher as core::str::pattern::Searcher>::next_match', 'crate::support::dbg::next_match_stub')
LIB_ATTRS = ''

PRE = '''use crate::support::dbg::*;
use core::fmt::{self, Debug, Formatter};
pub struct Raw(pub &'static str);
impl Debug for Raw { fn fmt(&self, f: &mut Formatter<'_>) -> fmt::Result { f.write_str(self.0) } }
pub struct Mw<'a, const ID: u8>(pub &'a Val<ID>);
impl<'a, const ID: u8> Debug for Mw<'a, ID> { fn fmt(&self, f: &mut Formatter<'_>) -> fmt::Result { fmt_m(self.0, f) } }
pub struct Lw<'a, const ID: u8>(pub &'a Val<ID>);
impl<'a, const ID: u8> Debug for Lw<'a, ID> { fn fmt(&self, f: &mut Formatter<'_>) -> fmt::Result { fmt_nl(self.0, f) } }
'''

# field codes: p plain, i ignored, r renamed, m method fmt_m, l method fmt_nl (two lines), b renamed + method
FCODES = ['p', 'i', 'r', 'm', 'l', 'b']


class Spec:
    """kind: struct|enum; tname: None|'Rn'|False (struct) / None|True|'En' (enum);
       variants: list of dict(kind, vname: None|'Rv'|False, nf: None|bool, fields: [codes])"""

    def __init__(self, kind, tname, variants, tnf=None):
        self.kind = kind
        self.tname = tname
        self.tnf = tnf
        self.variants = variants


def named_style(vk, nf):
    return nf if nf is not None else (vk == 'named')


def valid(spec):
    for v in spec.variants:
        ns = named_style(v['kind'], spec.tnf if spec.kind == 'struct' else v['nf'])
        if v['kind'] == 'unit' and v['fields']:
            return False
        for c in v['fields']:
            if c in 'rb' and not ns:
                return False   # `name` on a positionally shown field is (rightly) rejected
        shown = [c for c in v['fields'] if c != 'i']
        if effective_name(spec, v) is None:
            if v['kind'] == 'unit' or not shown:
                return False   # nothing to print: (rightly) rejected
    return True


def effective_name(spec, v, ident='Ty', vident=None):
    if spec.kind == 'struct':
        if spec.tname is None:
            return ident
        if spec.tname is False:
            return None
        return spec.tname
    en = None
    if spec.tname is True:
        en = ident
    elif isinstance(spec.tname, str):
        en = spec.tname
    vn = v.get('ident', 'Vx') if v['vname'] is None else (None if v['vname'] is False else v['vname'])
    if en and vn:
        return f'{en}::{vn}'
    return en or vn


def build(spec):
    variants = []
    idc = 0
    for k, v in enumerate(spec.variants):
        v['ident'] = S.VNAMES[k]
        fields = []
        for i, c in enumerate(v['fields']):
            p = {}
            if c == 'x':        # `ignore` and `method` on one field: ignored
                p['method'] = 'fmt_m'
                c = 'i'
            if c == 'i':
                p['ignore'] = True
            if c == 'f':
                p['ignore'] = False      # explicitly shown (`Debug = true`, `ignore = false`, `ignore(false)`)
            if c in 'rb':
                p['name'] = f'rk{i}'      # starts with r: a key must not be treated like a raw-identifier prefix
            if c in 'mb':
                p['method'] = 'fmt_m'
            if c == 'l':
                p['method'] = 'fmt_nl'
            f = F(f'Val<{idc}>', S.fname(i, k, len(v['fields'])) if v['kind'] == 'named' else None, **({'Debug': p} if p else {}))
            f.code = c
            f.vid = idc
            idc += 1
            fields.append(f)
        va = {}
        if spec.kind == 'enum':
            p = {}
            if v['vname'] is not None:
                p['name'] = v['vname']
            if v['nf'] is not None:
                p['named_field'] = v['nf']
            if p:
                va['Debug'] = p
        variants.append(V(S.VNAMES[k], v['kind'], fields, **va))
    tp = {}
    if spec.tname is not None:
        tp['name'] = spec.tname
    if spec.kind == 'struct' and spec.tnf is not None:
        tp['named_field'] = spec.tnf
    return T(spec.kind, 'Ty', variants, [('Debug', tp)])


def oracle_impl(spec, t):
    arms = ''
    for v, mv in zip(spec.variants, t.variants):
        name = effective_name(spec, v)
        ns = named_style(v['kind'], spec.tnf if spec.kind == 'struct' else v['nf'])
        shown = [(i, f) for i, f in enumerate(mv.fields) if f.code != 'i']

        def val(i, f):
            if f.code in 'mb':
                return f'&Mw(a{i})'
            if f.code == 'l':
                return f'&Lw(a{i})'
            return f'a{i}'

        def key(i, f):
            if f.code in 'rb':
                return f'rk{i}'
            return f.name if f.name is not None else f'_{i}'
        if spec.kind == 'enum' and v['kind'] == 'unit':
            body = f'f.write_str("{name}")'
        elif ns and name is not None:
            body = f'f.debug_struct("{name}")' + ''.join(f'.field("{key(i, f)}", {val(i, f)})' for i, f in shown) + '.finish()'
        elif ns:
            body = 'f.debug_map()' + ''.join(f'.entry(&Raw("{key(i, f)}"), {val(i, f)})' for i, f in shown) + '.finish()'
        else:
            body = f'f.debug_tuple("{name or ""}")' + ''.join(f'.field({val(i, f)})' for i, f in shown) + '.finish()'
        arms += f'            {pattern(t, mv, "a")} => {body},\n'
    return ('pub struct Or<\'a>(pub &\'a Ty);\nimpl<\'a> Debug for Or<\'a> {\n    fn fmt(&self, f: &mut Formatter<\'_>) -> fmt::Result {\n'
            f'        match self.0 {{\n{arms}        }}\n    }}\n}}\n')


def max_len(spec):
    m = 0
    for v in spec.variants:
        n = len(effective_name(spec, v) or '') + 6
        for c in v['fields']:
            if c != 'i':
                n += 4 + 2 + 4 + 4 + 3   # indent + key + ': ' + token (incl. nested indent) + ',\n'
        m = max(m, n)
    return m


def twin_derive(spec, t):
    """#[derive(Debug)] twin for configs without educe parameters"""
    t2 = t.clone()
    t2.name = 'Ty'
    s = render_type(t2, Spelling()).replace('#[derive(Educe)]\n#[educe(Debug)]\n', '#[derive(Debug)]\n')
    return 'pub mod twin {\n    use super::*;\n' + ''.join('    ' + l + '\n' for l in (s + any_fn(t2)).splitlines()) + '}\n'


def emit(modname, cfgid, spec, sp=None, pre='', t_override=None, xf=None, modes=('compact', 'pretty')):
    t = t_override or build(spec)
    if xf:
        xf(t)
        for v, mv in zip(spec.variants, t.variants):
            v['ident'] = mv.name
    body = pre + PRE + render_type(t, sp) + any_fn(t) + variant_index_fn(t) + oracle_impl(spec, t)
    unwind = max(max_len(spec), 12) + 6
    plain = spec.tname is None and spec.tnf is None and all(v['vname'] is None and v['nf'] is None and all(c == 'p' for c in v['fields']) for v in spec.variants)
    twin = ''
    if plain:
        body += twin_derive(spec, t)
        from .model import construct
        arms = ''
        for mv in t.variants:
            tw = T(t.kind, 'twin::Ty', t.variants, [])
            arms += f'        {pattern(t, mv, "a")} => {construct(tw, mv, [f"*a{i}" for i in range(len(mv.fields))])},\n'
        body += f'pub fn to_twin(x: &Ty) -> twin::Ty {{\n    match x {{\n{arms}    }}\n}}\n'
        twin = '''    log_reset();
    let y: twin::Ty = to_twin(&x);
    let (b3, r3) = render(&y, alt);
    assert!(r3.is_ok() && b1.same(&b3), "output differs from #[derive(Debug)]");
'''
    body += f'''pub fn check(alt: bool) {{
    let x = anyv();
    log_reset();
    let (b1, r1) = render(&x, alt);
    let l1 = log_take();
    log_reset();
    let (b2, r2) = render(&Or(&x), alt);
    let l2 = log_take();
    kani::cover!(true, "reached");
    assert!(r1.is_ok() && r2.is_ok(), "fmt returned Err");
    assert!(!b1.overflow && !b2.overflow, "buffer capacity exceeded");
    assert!(b1.same(&b2), "rendered bytes differ from the core::fmt builder oracle");
    assert!(l1.1 == l2.1 && l1.0 == l2.0, "values were not formatted by the right formatter in the right order");
{twin}}}
'''
    h1 = Harness('h_compact', unwind=unwind, covers=['reached'])
    h2 = Harness('h_pretty', unwind=unwind, covers=['reached'], stubs=[STUB])
    hs = []
    if 'compact' in modes:
        body += h1.attrs() + 'pub fn h_compact() { check(false); }\n'
        hs.append(h1)
    if 'pretty' in modes:
        body += h2.attrs() + 'pub fn h_pretty() { check(true); }\n'
        hs.append(h2)
    sample = dict(type_definition=render_type(t, sp), oracle=oracle_impl(spec, t))
    return Module(modname, cfgid, body, hs, sample=sample, functions=FUNCTIONS,
                  classes=classes_of(spec))


def classes_of(spec):
    ks = []
    if spec.kind == 'enum':
        for v in spec.variants:
            ns = named_style(v['kind'], v['nf'])
            if v['kind'] != 'unit' and not ns and effective_name(spec, v) is None:
                ks.append('c06:nameless-tuple-style-variant')
    return ks


def struct_specs():
    out = []
    for kind in ('named', 'tuple'):
        for tname in (None, 'Rn', False):
            for tnf in (None, kind == 'tuple'):   # default, flipped
                for fl in S.field_lists(FCODES, 3):
                    sp = Spec('struct', tname, [dict(kind=kind, vname=None, nf=None, fields=fl)], tnf)
                    if valid(sp):
                        out.append(sp)
    for tname in (None, 'Rn'):
        for tnf in (None, False, True):
            out.append(Spec('struct', tname, [dict(kind='unit', vname=None, nf=None, fields=[])], tnf))
    return out


def variant_options():
    out = []
    for kind in ('named', 'tuple'):
        for vname in (None, 'Rv', False):
            for nf in (None, kind == 'tuple'):
                for fl in S.field_lists(FCODES, 2):
                    out.append(dict(kind=kind, vname=vname, nf=nf, fields=fl))
    for vname in (None, 'Rv', False):
        out.append(dict(kind='unit', vname=vname, nf=None, fields=[]))
    return out


def spec_id(sp):
    def one(v):
        if v['kind'] == 'unit':
            s = 'U'
        else:
            s = ('N{' if v['kind'] == 'named' else 'T(') + ''.join(v['fields']) + ('}' if v['kind'] == 'named' else ')')
        if v['vname'] is not None:
            s += f'@{v["vname"]}'
        if v['nf'] is not None:
            s += f'/nf={int(v["nf"])}'
        return s
    return f'{sp.kind}[name={sp.tname},nf={sp.tnf}][' + ';'.join(one(v) for v in sp.variants) + ']'


def gen_specs(tier, seed):
    rng = random.Random(seed * 271 + 9)
    ss = struct_specs()
    vo = variant_options()
    specs = []
    if tier == 'quick':
        # structs: every (kind, name, named_field) cell with a rotating field list; a few with all codes
        cells = {}
        for sp in ss:
            v = sp.variants[0]
            cells.setdefault((v['kind'], sp.tname, sp.tnf), []).append(sp)
        for n, (cell, lst) in enumerate(sorted(cells.items(), key=str)):
            specs.append(lst[(n * 37) % len(lst)])
            specs.append(lst[(n * 101 + 17) % len(lst)])
        # enums: every enum-name setting x a rotating choice of variants covering each (kind, vname, nf) cell
        vcells = {}
        for v in vo:
            vcells.setdefault((v['kind'], v['vname'], v['nf']), []).append(v)
        keys = sorted(vcells.keys(), key=str)
        n = 0
        for tname in (None, True, 'En'):
            for i in range(0, len(keys), 2):
                vs = []
                for kk in keys[i:i + 2] + [keys[(i + 5) % len(keys)]]:
                    lst = vcells[kk]
                    vs.append(dict(lst[(n * 13 + 3) % len(lst)]))
                    n += 1
                sp = Spec('enum', tname, vs)
                if valid(sp):
                    specs.append(sp)
        for _ in range(6):
            sp = Spec('enum', rng.choice([None, True, 'En']), [dict(rng.choice(vo)) for _ in range(rng.randint(1, 3))])
            if valid(sp):
                specs.append(sp)
        # the bare forms: no name shown at all
        U = dict(kind='unit', vname=None, nf=None, fields=[])
        specs.append(Spec('enum', None, [dict(kind='tuple', vname=False, nf=None, fields=['p', 'p']), dict(U)]))
        specs.append(Spec('enum', None, [dict(U), dict(kind='named', vname=False, nf=False, fields=['p', 'm'])]))
        specs.append(Spec('enum', None, [dict(kind='named', vname=False, nf=None, fields=['p', 'r']), dict(kind='tuple', vname=False, nf=True, fields=['l', 'p'])]))
        specs.append(Spec('enum', None, [dict(kind='tuple', vname=False, nf=None, fields=['i', 'l'])]))
        specs.append(Spec('struct', False, [dict(kind='tuple', vname=None, nf=None, fields=['p', 'm'])]))
        specs.append(Spec('struct', False, [dict(kind='named', vname=None, nf=None, fields=['r', 'p'])]))
        specs.append(Spec('struct', False, [dict(kind='named', vname=None, nf=None, fields=['p', 'l'])], False))
        # every builder arm (struct / named variant / tuple variant x named-style with and without a name, tuple-style) with every field code
        for codes in (['b', 'p'], ['m', 'r'], ['l', 'b']):
            specs.append(Spec('enum', None, [dict(kind='tuple', vname=False, nf=True, fields=codes), dict(kind='named', vname=False, nf=None, fields=codes[::-1])]))
            specs.append(Spec('enum', True, [dict(kind='tuple', vname=None, nf=True, fields=codes[::-1]), dict(kind='named', vname='Rv', nf=None, fields=codes)]))
        specs.append(Spec('struct', False, [dict(kind='tuple', vname=None, nf=None, fields=['b', 'r', 'p'])], True))
        specs.append(Spec('struct', False, [dict(kind='named', vname=None, nf=None, fields=['b', 'm', 'l'])]))
        specs.append(Spec('struct', 'Rn', [dict(kind='tuple', vname=None, nf=None, fields=['r', 'b', 'i'])], True))
        # positional keys `_i` (tuple shown as named) after an ignored field: the key is the declaration position, not the count of shown fields
        specs.append(Spec('enum', None, [dict(kind='tuple', vname=None, nf=True, fields=['i', 'p']), dict(kind='tuple', vname=False, nf=True, fields=['i', 'm'])]))
        specs.append(Spec('enum', True, [dict(kind='tuple', vname='Rv', nf=True, fields=['i', 'l']), dict(U)]))
        specs.append(Spec('struct', None, [dict(kind='tuple', vname=None, nf=None, fields=['i', 'p', 'm'])], True))
        specs.append(Spec('struct', False, [dict(kind='tuple', vname=None, nf=None, fields=['p', 'i', 'p'])], True))
        specs.append(Spec('struct', None, [dict(kind='named', vname=None, nf=None, fields=['f', 'i', 'p'])]))
        specs.append(Spec('struct', 'Rn', [dict(kind='tuple', vname=None, nf=None, fields=['f', 'f'])], True))
        specs.append(Spec('enum', None, [dict(kind='named', vname=None, nf=None, fields=['f', 'm']), dict(kind='tuple', vname=None, nf=None, fields=['i', 'f']), dict(kind='tuple', vname='Rv', nf=True, fields=['f'])]))
        specs.append(Spec('struct', None, [dict(kind='named', vname=None, nf=None, fields=['p', 'x', 'm'])]))
        specs.append(Spec('enum', None, [dict(kind='tuple', vname=None, nf=None, fields=['x', 'p']), dict(kind='named', vname=None, nf=None, fields=['r', 'x'])]))
        # degenerate shapes: zero-field structs and variants (a name must be shown), flipped named_field on them
        specs.append(Spec('struct', None, [dict(kind='tuple', vname=None, nf=None, fields=[])]))
        specs.append(Spec('struct', 'Rn', [dict(kind='named', vname=None, nf=None, fields=[])], False))
        specs.append(Spec('enum', True, [dict(kind='tuple', vname=None, nf=None, fields=[]), dict(kind='named', vname='Rv', nf=None, fields=[]), dict(kind='named', vname=None, nf=False, fields=['i'])]))
        # runs of adjacent ignored fields before / between shown ones
        specs.append(Spec('enum', None, [dict(kind='tuple', vname=None, nf=None, fields=['i', 'i', 'p']), dict(kind='named', vname=None, nf=None, fields=['p', 'i', 'i', 'm'])]))
        specs.append(Spec('struct', None, [dict(kind='tuple', vname=None, nf=None, fields=['p', 'i', 'i', 'p'])], True))
        specs.append(Spec('enum', True, [dict(kind='tuple', vname=None, nf=True, fields=['i', 'i', 'i', 'p']), dict(kind='named', vname=None, nf=False, fields=['i', 'i', 'l'])]))
        # wide shapes: 13 fields (positions >= 10 sort before 2 as strings; the field names are not in alphabetical order)
        specs.append(Spec('struct', None, [dict(kind='tuple', vname=None, nf=None, fields=['p'] * S.WIDE)]))
        specs.append(Spec('struct', None, [dict(kind='tuple', vname=None, nf=None, fields=['p', 'i'] * 6 + ['p'])], True))
        specs.append(Spec('struct', None, [dict(kind='named', vname=None, nf=None, fields=['p'] * S.WIDE)]))
        # plain ones (twin #[derive(Debug)])
        specs.append(Spec('struct', None, [dict(kind='named', vname=None, nf=None, fields=['p', 'p'])]))
        specs.append(Spec('struct', None, [dict(kind='tuple', vname=None, nf=None, fields=['p', 'p', 'p'])]))
        specs.append(Spec('struct', None, [dict(kind='unit', vname=None, nf=None, fields=[])]))
        specs.append(Spec('enum', None, [dict(kind='named', vname=None, nf=None, fields=['p']), dict(kind='tuple', vname=None, nf=None, fields=['p', 'p']), dict(kind='unit', vname=None, nf=None, fields=[])]))
    else:
        specs += ss[::9]
        n = 0
        for tname in (None, True, 'En'):
            for i, v in enumerate(vo):
                if (i + (0 if tname is None else 1 if tname is True else 2)) % 3 != 0:
                    continue      # every variant option once, under one of the three enum-name settings in rotation
                vs = [dict(vo[(i * 7 + 1) % len(vo)]), dict(vo[(i * 11 + 5) % len(vo)])]
                vs.insert(i % 3, dict(v))
                if (i + n) % 2:
                    vs = vs[:2]
                sp = Spec('enum', tname, vs)
                n += 1
                if valid(sp):
                    specs.append(sp)
        for _ in range(40):
            sp = Spec('enum', rng.choice([None, True, 'En']), [dict(rng.choice(vo)) for _ in range(rng.randint(1, 3))])
            if valid(sp):
                specs.append(sp)
        specs.append(Spec('struct', None, [dict(kind='named', vname=None, nf=None, fields=['p', 'p'])]))
        specs.append(Spec('struct', None, [dict(kind='tuple', vname=None, nf=None, fields=['p', 'p', 'p'])]))
        specs.append(Spec('struct', None, [dict(kind='unit', vname=None, nf=None, fields=[])]))
        specs.append(Spec('enum', None, [dict(kind='named', vname=None, nf=None, fields=['p']), dict(kind='tuple', vname=None, nf=None, fields=['p', 'p']), dict(kind='unit', vname=None, nf=None, fields=[])]))
    return specs


def generic_modules(start):
    """generic types with bounds, a where-clause, a lifetime and a method field: the Educe__DebugField wrapper must carry the type's generics"""
    mods = []
    decl = '''pub trait Tag { const T: u8; }
impl<const ID: u8> Tag for Val<ID> { const T: u8 = ID; }
pub fn fmt_g<G: Tag>(_v: &G, f: &mut Formatter<'_>) -> fmt::Result { log_push(G::T | 0x20, 0); f.write_str("Gg") }
#[derive(Educe)]
#[educe(Debug)]
pub enum Ty<'a, G: Tag, H = u8> where H: Copy {
    Alpha(G, #[educe(Debug(method(fmt_g)))] G, #[educe(Debug(ignore))] H),
    Beta { r: &'a G, #[educe(Debug(name(kk), method(fmt_g)))] g: G },
}
pub struct Gw<'x, G: Tag>(pub &'x G);
impl<'x, G: Tag> Debug for Gw<'x, G> { fn fmt(&self, f: &mut Formatter<'_>) -> fmt::Result { fmt_g(self.0, f) } }
pub struct Or<'x, 'a>(pub &'x Ty<'a, Val<1>, u16>);
impl<'x, 'a> Debug for Or<'x, 'a> {
    fn fmt(&self, f: &mut Formatter<'_>) -> fmt::Result {
        match self.0 {
            Ty::Alpha(a0, a1, _) => f.debug_tuple("Alpha").field(a0).field(&Gw(a1)).finish(),
            Ty::Beta { r, g } => f.debug_struct("Beta").field("r", r).field("kk", &Gw(g)).finish(),
        }
    }
}
pub static SV: Val<1> = Val(9);
pub fn check(alt: bool) {
    let x: Ty<'static, Val<1>, u16> = if kani::any::<u8>() & 1 == 1 { Ty::Alpha(Sym::sym(), Sym::sym(), Sym::sym()) } else { Ty::Beta { r: &SV, g: Sym::sym() } };
    log_reset();
    let (b1, r1) = render(&x, alt);
    let l1 = log_take();
    log_reset();
    let (b2, r2) = render(&Or(&x), alt);
    let l2 = log_take();
    kani::cover!(true, "reached");
    assert!(r1.is_ok() && r2.is_ok() && !b1.overflow && !b2.overflow);
    assert!(b1.same(&b2), "rendered bytes differ from the core::fmt builder oracle (generic type with method field)");
    assert!(l1.1 == l2.1 && l1.0 == l2.0, "values were not formatted by the right formatter in the right order");
}
'''
    h1 = Harness('h_compact', unwind=70, covers=['reached'])
    h2 = Harness('h_pretty', unwind=70, covers=['reached'], stubs=[STUB])
    body = PRE + decl + h1.attrs() + 'pub fn h_compact() { check(false); }\n' + h2.attrs() + 'pub fn h_pretty() { check(true); }\n'
    mods.append(Module(f'm{start:04d}', "generic enum Ty<'a, G: Tag, H = u8> where H: Copy with method / rename+method / ignore fields, at <Val<1>, u16>", body, [h1, h2],
                       sample=dict(type_definition=decl[:600]), functions=FUNCTIONS))
    return mods


def gen(tier, seed):
    mods = []
    for n, sp in enumerate(gen_specs(tier, seed)):
        mods.append(emit(f'm{n:04d}', spec_id(sp), sp))
    mods += generic_modules(len(mods))
    from .runner import empty_enum_module
    for el in ['Debug(name = Rn)', 'Debug(name = true)']:   # with the enum name off (default) there is nothing to print: refused (C13)
        mods.append(empty_enum_module(f'm{len(mods):04d}', el, 'core::fmt::Debug', FUNCTIONS))
    return mods


RULE = ('one config = struct {named, tuple, unit} x type name {default, renamed, false} x named_field {default, flipped} x per-field {plain, ignored, renamed, method, two-line method, renamed+method}, '
        'or enum x enum-name {off, true, renamed} x per-variant {name default/renamed/false, named_field default/flipped, shape, field codes}; each config is rendered with alternate off and on through Formatter::new '
        'and compared byte-for-byte with an oracle impl written with debug_struct/debug_tuple/debug_map/write_str, plus a side-channel log proving for all field values that each value was formatted by its own formatter in order; '
        'configs without parameters are also compared with a #[derive(Debug)] twin. The variant is symbolic in both modes. Non-trivial = both harnesses passed and were reached.')
BOUNDS = dict(max_fields='3 (structs), 2 (enum variants); plus runs of ignored fields (<= 4 fields) and three 13-field structs', max_variants=3, buffer_bytes=256, log_events=8,
              outside=['formatter flags other than #', 'non-ASCII names', 'field Debug output other than the tokens v<i>/Mm/p\\nq', 'outputs longer than 128 bytes'])
ASSUME = ['Kani 0.68 / CBMC 6.11 / CaDiCaL; rustc nightly-2026-08-21 x86_64 dev profile; unstable Formatter::new used to bypass fmt::write',
          'STUB (pretty mode only): <CharSearcher as Searcher>::next_match replaced by an ASCII-needle byte loop over a mirror struct; validated in the same run by a native differential execution under the toolchain Kani pins (model vs real function on every string of length <= 7 over {a, b, \\n}); under Kani itself the real function does not terminate within 300 s even on concrete 2-byte strings, which is why it is stubbed',
          'field values are logged to a side channel instead of being printed, so the bytes pushed through PadAdapter stay concrete',
          'oracle written from the config by vk/p_c06.py']


def main(tier, seed, keep=False):
    from .runner import run_e1
    return run_e1('C06', tier, seed, gen(tier, seed), RULE, BOUNDS, ASSUME, need_stubbing=True, lib_attrs=LIB_ATTRS,
                  harness_timeout=600 if tier == 'quick' else 1200, keep=keep, validate_stub=True)
