"""E2 — applicability encoder for C11 (automatic bounds) and C12 (explicit bound modes, generics).

For every generic derive request of a stated grammar the REAL expansion is obtained in-process
(tools/expander compiles /repo/src/lib.rs with --cfg magiclen_educe_verif) and only its structure is
read: per impl the trait, the generic parameter list and every where-predicate.  From them

    W  = "this impl applies to Type<Args>"   (real where-clause + inline bounds + user where-clause)
    F  = what the property says               (built from the request by this file)

are built as propositional formulas over Booleans  b[param, trait] = "the argument substituted for
param implements trait" and z3 decides  (W xor F)  under the supertrait closure of the universe.
UNSAT: the impl applies to exactly the instantiations the property names, for EVERY instantiation
over the grammar.  SAT: the model is an instantiation; it is materialised with concrete argument
types and replayed through rustc (trait selection evaluated at compile time) before being reported.
"""
import itertools
import json
import os
import random
import re
import shutil
import subprocess
import sys
import time

import z3

from .runner import VERIF, REPO, WORK, sh, load_known, copy_lock

TRAITS = ['Debug', 'Clone', 'Copy', 'PartialEq', 'Eq', 'PartialOrd', 'Ord', 'Hash', 'Default']
TPATH = {'Debug': '::core::fmt::Debug', 'Clone': '::core::clone::Clone', 'Copy': '::core::marker::Copy', 'PartialEq': '::core::cmp::PartialEq',
         'Eq': '::core::cmp::Eq', 'PartialOrd': '::core::cmp::PartialOrd', 'Ord': '::core::cmp::Ord', 'Hash': '::core::hash::Hash',
         'Default': '::core::default::Default', 'IntoU8': '::core::convert::Into<u8>', 'IntoU16': '::core::convert::Into<u16>', 'Marker': 'Marker'}
SUPER = {'Copy': ['Clone'], 'Eq': ['PartialEq'], 'PartialOrd': ['PartialEq'], 'Ord': ['Eq', 'PartialOrd']}
ALLT = TRAITS + ['IntoU8', 'IntoU16', 'Marker']


# ------------------------------------------------------------------ type terms
def P(n): return ('param', n)
U8 = ('u8',)
NOIMPL = ('noimpl',)
ARRN = ('arrn',)   # [u8; N]: an array over the const parameter (Default only known for N <= 32: opaque)
LTPH = ('ltph',)   # PhantomData<&'a ()>: uses the lifetime parameter, implements everything
def PH(t): return ('phantom', t)
def OPT(t): return ('opt', t)
def PAIR(a, b): return ('pair', a, b)
def ARR(t): return ('arr', t)
def BOX(t): return ('box', t)
def PAREN(t): return ('paren', t)   # `(T)`: a parenthesised type, the same type as T
def UPH(t): return ('uph', t)       # `tags::PhantomData<T>`: a *user* type named like core's PhantomData; every trait exactly when T has it
def REF(t): return ('ref', t)       # `&'a T`: Clone and Copy whatever T is, never Default, everything else through T


def rust(t):
    k = t[0]
    if k == 'param':
        return t[1]
    if k == 'u8':
        return 'u8'
    if k == 'noimpl':
        return 'NoImpl'
    if k == 'ltph':
        return "::core::marker::PhantomData<&'a ()>"
    if k == 'arrn':
        return '[u8; N]'
    if k == 'phantom':
        return f'::core::marker::PhantomData<{rust(t[1])}>'
    if k == 'opt':
        return f'Option<{rust(t[1])}>'
    if k == 'pair':
        return f'({rust(t[1])}, {rust(t[2])})'
    if k == 'arr':
        return f'[{rust(t[1])}; 2]'
    if k == 'box':
        return f'Box<{rust(t[1])}>'
    if k == 'paren':
        return f'({rust(t[1])})'
    if k == 'ref':
        return f"&'a {rust(t[1])}"
    if k == 'uph':
        return f'tags::PhantomData<{rust(t[1])}>'
    raise ValueError(t)


def norm(s):
    return re.sub(r'\s+', '', s)


def parse_term(s):
    """inverse of rust() on token-printed text; None if outside the grammar (opaque)"""
    s = norm(s)
    if s == 'u8':
        return U8
    if s == 'NoImpl':
        return NOIMPL
    if s == "::core::marker::PhantomData<&'a()>":
        return LTPH
    if s == '[u8;N]':
        return ARRN
    m = re.fullmatch(r"&'a(.+)", s)
    if m:
        t = parse_term(m.group(1))
        return REF(t) if t else None
    if re.fullmatch(r'[A-Z][A-Za-z0-9_]*', s) and s not in ('Self',):
        return P(s)
    m = re.fullmatch(r'tags::PhantomData<(.+)>', s)
    if m:
        t = parse_term(m.group(1))
        return UPH(t) if t else None
    m = re.fullmatch(r'(::core::marker::)?PhantomData<(.+)>', s)
    if m:
        t = parse_term(m.group(2))
        return PH(t) if t else None
    m = re.fullmatch(r'Option<(.+)>', s)
    if m:
        t = parse_term(m.group(1))
        return OPT(t) if t else None
    m = re.fullmatch(r'Box<(.+)>', s)
    if m:
        t = parse_term(m.group(1))
        return BOX(t) if t else None
    m = re.fullmatch(r'\[(.+);2\]', s)
    if m:
        t = parse_term(m.group(1))
        return ARR(t) if t else None
    m = re.fullmatch(r'\((.+)\)', s)
    if m:
        inner = m.group(1)
        depth = 0
        for i, c in enumerate(inner):
            if c in '<([':
                depth += 1
            elif c in '>)]':
                depth -= 1
            elif c == ',' and depth == 0:
                a, b = parse_term(inner[:i]), parse_term(inner[i + 1:])
                return PAIR(a, b) if a and b else None
        t = parse_term(inner)      # no top-level comma: parentheses only
        return PAREN(t) if t else None
    return None


def trait_key(bound):
    b = norm(bound)
    for k, p in TPATH.items():
        if b == norm(p) or b == norm(p).lstrip(':') or b == k or b == 'std::' + norm(p)[8:] or b == norm(p).replace('::core::', 'core::'):
            return k
    m = re.fullmatch(r'(::)?(core|std)::(\w+::)*(\w+)', b)
    if m and m.group(4) in TRAITS:
        return m.group(4)
    if b in ('Into<u8>', '::core::convert::Into<u8>', 'core::convert::Into<u8>'):
        return 'IntoU8'
    if b in ('Into<u16>', '::core::convert::Into<u16>', 'core::convert::Into<u16>'):
        return 'IntoU16'
    return None


class Enc:
    """formula builder over b[param, trait]"""

    def __init__(self, params):
        self.params = params
        self.b = {(p, t): z3.Bool(f'{p}:{t}') for p in params for t in ALLT}
        self.opaque = {}

    def universe(self):
        cs = []
        for p in self.params:
            for t, sups in SUPER.items():
                for s in sups:
                    cs.append(z3.Implies(self.b[(p, t)], self.b[(p, s)]))
        return cs

    def atom(self, key):
        if key not in self.opaque:
            self.opaque[key] = z3.Bool('opaque:' + key)
        return self.opaque[key]

    def holds(self, t, tr):
        k = t[0]
        if k == 'paren':
            return self.holds(t[1], tr)
        if k == 'param':
            if t[1] not in self.params:
                return self.atom(f'{t[1]}:{tr}')
            return self.b[(t[1], tr)]
        if tr == 'Marker':
            return z3.BoolVal(False)
        if k == 'u8':
            return z3.BoolVal(True)      # u8: the nine traits, Into<u8> and Into<u16>
        if k == 'ltph':
            return z3.BoolVal(tr not in ('IntoU8', 'IntoU16'))
        if k == 'arrn':
            if tr in ('IntoU8', 'IntoU16', 'Marker'):
                return z3.BoolVal(False)
            return self.atom('[u8;N]:Default') if tr == 'Default' else z3.BoolVal(True)
        if k == 'noimpl':
            return z3.BoolVal(False)
        if tr in ('IntoU8', 'IntoU16'):
            return z3.BoolVal(False)
        if k == 'uph':
            return self.holds(t[1], tr)
        if k == 'phantom':
            return z3.BoolVal(True)
        if k == 'ref':
            return z3.BoolVal(True) if tr in ('Clone', 'Copy') else z3.BoolVal(False) if tr == 'Default' else self.holds(t[1], tr)
        if k == 'opt':
            return z3.BoolVal(True) if tr == 'Default' else self.holds(t[1], tr)
        if k == 'pair':
            return z3.And(self.holds(t[1], tr), self.holds(t[2], tr))
        if k == 'arr':
            return self.holds(t[1], tr)
        if k == 'box':
            return z3.BoolVal(False) if tr == 'Copy' else self.holds(t[1], tr)
        raise ValueError(t)


# ------------------------------------------------------------------ requests
class Field:
    def __init__(self, term, **roles):
        self.term = term
        self.roles = roles   # trait -> 'ignore' | 'method' | 'expr' | 'into' (chosen Into field) ; default: plain


class Req:
    """one generic derive request.  kind struct|enum|union; params: list of (kind, name, inline_bound, default);
       variants: [(name, kind, [Field], default_marker?)]; traits: list of (trait, bound_mode) with bound_mode None|'*'|False|'T: X'"""

    def __init__(self, rid, kind, params, variants, traits, where=None, hand=(), note='', topt=None, vattr=None, wstyle='plain'):
        self.rid = rid
        self.wstyle = wstyle       # spelling of the user's where-clause: plain | trailing (comma after the last predicate) | bare (`where` with no predicate)
        self.topt = topt or {}     # trait -> extra type-level parameter text that does not concern bounds (e.g. Debug: 'named_field = false')
        self.vattr = vattr or {}   # variant name -> extra `#[educe(..)]` text on that variant
        self.kind = kind
        self.params = params
        self.variants = variants
        self.traits = traits
        self.where = where
        self.hand = list(hand)   # hand-written unconditional impls in the probe crate: 'PartialEq', 'Clone', ...
        self.note = note

    def type_params(self):
        return [p[1] for p in self.params if p[0] == 'type']

    def header(self):
        out = []
        for k, n, b, d in self.params:
            if k == 'lifetime':
                out.append(n)
            elif k == 'type':
                out.append(n + (f': {b}' if b else '') + (f' = {d}' if d else ''))
            else:
                out.append(f'const {n}: usize' + (f' = {d}' if d else ''))
        return '<' + ', '.join(out) + '>' if out else ''

    def ty_args(self, args):
        """instantiate: args maps type param -> rust type"""
        out = []
        for k, n, b, d in self.params:
            if k == 'lifetime':
                out.append("'static")
            elif k == 'type':
                out.append(args[n])
            else:
                out.append('3')
        return '<' + ', '.join(out) + '>' if out else ''

    def field_attr(self, f):
        items = []
        for tr, role in f.roles.items():
            if role == 'ignore':
                items.append(f'{tr}(ignore)')
            elif role == 'method':
                m = METHOD[tr]
                if tr == 'PartialOrd' and 'Ord' in [t for t, _ in self.traits]:
                    m = 'any_cmp'    # with Ord educed too, the Ord handler consumes PartialOrd(..) field attributes
                items.append(f'{tr}(method({m}))')
            elif role == 'expr':
                items.append('Default(expression = anyv())')
            elif role == 'into':
                items.append('Into(u8)' if tr == 'Into' else 'Into(u16)')
            elif role == 'intom':
                items.append('Into(u8, method(any_into))' if tr == 'Into' else 'Into(u16, method(any_into16))')
            elif role == 'marker':
                items.append(tr)
        return f'#[educe({", ".join(items)})] ' if items else ''

    def source(self, name='Ty', with_derive=True):
        items = []
        for tr, mode in self.traits:
            if tr in ('Into', 'Into16'):
                s = 'Into(u8' if tr == 'Into' else 'Into(u16'
                if mode is not None:
                    s += ', ' + bound_text(mode)
                items.append(s + ')')
                continue
            ps = []
            if self.kind == 'union' and tr in ('Debug', 'PartialEq', 'Hash'):
                ps.append('unsafe')
            if mode is not None:
                ps.append(bound_text(mode))
            if tr in self.topt:
                ps.append(self.topt[tr])
            items.append(tr + (f'({", ".join(ps)})' if ps else ''))
        s = ('#[derive(Educe)]\n' if with_derive else '') + f'#[educe({", ".join(items)})]\n'
        wh = f' where {self.where}' if self.where else ''
        if self.where and self.wstyle == 'trailing':
            wh += ','
        if not self.where and self.wstyle == 'bare':
            wh = ' where'
        hdr = self.header()
        if self.kind == 'struct':
            vn, vk, fs, _ = self.variants[0]
            if vk == 'tuple':
                s += f'pub struct {name}{hdr}(' + ', '.join(self.field_attr(f) + 'pub ' + rust(f.term) for f in fs) + f'){wh};\n'
            elif vk == 'unit':
                s += f'pub struct {name}{hdr}{wh};\n'
            else:
                s += f'pub struct {name}{hdr}{wh} {{ ' + ', '.join(self.field_attr(f) + f'pub f{i}: ' + rust(f.term) for i, f in enumerate(fs)) + ' }\n'
        elif self.kind == 'union':
            vn, vk, fs, _ = self.variants[0]
            s += f'pub union {name}{hdr}{wh} {{ ' + ', '.join(self.field_attr(f) + f'pub f{i}: ' + rust(f.term) for i, f in enumerate(fs)) + ' }\n'
        else:
            vs = []
            for vn, vk, fs, dm in self.variants:
                at = '#[educe(Default)] ' if dm else ''
                if vn in self.vattr:
                    at += f'#[educe({self.vattr[vn]})] '
                if vk == 'unit':
                    vs.append(at + vn)
                elif vk == 'tuple':
                    vs.append(at + vn + '(' + ', '.join(self.field_attr(f) + rust(f.term) for f in fs) + ')')
                else:
                    vs.append(at + vn + ' { ' + ', '.join(self.field_attr(f) + f'f{i}: ' + rust(f.term) for i, f in enumerate(fs)) + ' }')
            s += f'pub enum {name}{hdr}{wh} {{ ' + ', '.join(vs) + ' }\n'
        return s


METHOD = {'Debug': 'any_fmt', 'Clone': 'any_clone', 'PartialEq': 'any_eq', 'Eq': 'any_eq', 'PartialOrd': 'any_pcmp', 'Ord': 'any_cmp', 'Hash': 'any_hash'}


def bound_text(mode):
    if mode is False:
        return 'bound = false'
    if mode == '*':
        return 'bound(*)'
    if isinstance(mode, tuple):   # (spelling, text)
        sp, txt = mode
        return {'list': f'bound({txt})', 'str': f'bound = "{txt}"', 'liststr': f'bound("{txt}")', 'empty': 'bound = ""', 'falselist': 'bound(false)'}[sp]
    return f'bound({mode})'


# ------------------------------------------------------------------ F: what the property says
def delegated_fields(req, tr, educed):
    """field terms the implementation delegates to `tr` for"""
    out = []
    if tr == 'Default':
        if 'expression' in req.topt.get('Default', ''):
            return []      # a type-level expression builds the whole value: no field is defaulted
        if req.kind == 'enum':
            vs = [v for v in req.variants if v[3]] or (req.variants if len(req.variants) == 1 else [])
        else:
            vs = req.variants
        if req.kind == 'union':
            vn, vk, fs, _ = req.variants[0]
            marked = [f for f in fs if f.roles.get('Default') in ('marker', 'expr')] or (fs if len(fs) == 1 else [])
            return [f.term for f in marked if f.roles.get('Default') != 'expr']
        for vn, vk, fs, dm in vs:
            out += [f.term for f in fs if f.roles.get('Default') != 'expr']
        return out
    if req.kind == 'union' and tr in ('Debug', 'PartialEq', 'Hash'):
        return []   # byte-wise over size_of::<Self>() (C20): no field is delegated to
    for vn, vk, fs, dm in req.variants:
        for f in fs:
            if tr in ('Copy',) or (tr == 'Eq' and 'PartialEq' not in educed):
                out.append(f.term)          # every field
                continue
            if tr == 'Clone' and req.kind == 'union':
                out.append(f.term)
                continue
            carrier = tr
            role = f.roles.get(carrier)
            if tr == 'PartialEq' and role is None and 'Eq' in educed:
                role = f.roles.get('Eq')
            if tr in ('Ord', 'PartialOrd') and role is None:
                other = 'PartialOrd' if tr == 'Ord' else 'Ord'
                if other in educed and 'Ord' in educed:
                    role = f.roles.get(other)
            if role in ('ignore', 'method'):
                continue
            out.append(f.term)
    return out


def F_formula(enc, req, tr, mode, educed, Wmap):
    """formula for `impl tr` per the property statement"""
    conj = []
    # inline bounds and the user's where-clause are part of every impl header
    conj += header_constraints(enc, req)
    if tr in ('Into', 'Into16'):
        # only the chosen field, and only if it needs conversion
        key = 'IntoU8' if tr == 'Into' else 'IntoU16'
        if mode is None:
            for vn, vk, fs, dm in req.variants:
                ch = [f for f in fs if f.roles.get(tr) in ('into', 'intom')] or (fs if len(fs) == 1 else [f for f in fs if f.term == U8 and tr == 'Into'])
                for f in ch[:1]:
                    if f.roles.get(tr) == 'intom' or (f.term == U8 and tr == 'Into'):
                        continue
                    conj.append(enc.holds(f.term, key))
        else:
            conj += mode_constraints(enc, req, key, mode)
        return z3.And(conj) if conj else z3.BoolVal(True)
    if tr in ('Deref', 'DerefMut'):
        return z3.And(conj) if conj else z3.BoolVal(True)
    eff = tr
    # couplings: the companion impl is emitted with the primary's header
    if tr == 'Eq' and 'PartialEq' in educed:
        return F_formula(enc, req, 'PartialEq', dict(req.traits).get('PartialEq'), educed, Wmap)
    if tr == 'Copy' and 'Clone' in educed:
        return F_formula(enc, req, 'Clone', dict(req.traits).get('Clone'), educed, Wmap)
    if tr == 'PartialOrd' and 'Ord' in educed:
        return F_formula(enc, req, 'Ord', dict(req.traits).get('Ord'), educed, Wmap)
    bound_tr = tr
    if tr == 'Eq':
        # README ("Generic parameters will be automatically bound to the `PartialEq` trait") and the handler's own comment:
        # the trait required of the fields by an educed Eq is PartialEq, for the stand-alone impl too
        bound_tr = 'PartialEq'
    if tr == 'Clone' and ('Copy' in educed or req.kind == 'union'):
        has_method = any(f.roles.get('Clone') == 'method' for v in req.variants for f in v[2])
        if req.kind == 'union' or not has_method:
            bound_tr = 'Copy'
    if mode is None:
        for t in delegated_fields(req, tr, educed):
            conj.append(enc.holds(t, bound_tr))
        # supertraits on the type itself
        for s in self_supertraits(tr, educed):
            conj.append(self_holds(enc, req, s, educed, Wmap))
    else:
        conj += mode_constraints(enc, req, bound_tr, mode)
    return z3.And(conj) if conj else z3.BoolVal(True)


def self_supertraits(tr, educed):
    if tr == 'PartialOrd':
        return ['PartialEq']
    if tr == 'Ord':
        return ['Eq'] + ([] if 'PartialOrd' in educed else ['PartialOrd'])
    if tr == 'Copy':
        return ['Clone']
    if tr == 'Eq':
        return ['PartialEq']
    return []


def self_holds(enc, req, s, educed, Wmap):
    if s in req.hand:
        # hand-written partner impls in the probe crate are written `where Self: <supertraits>`
        sup = {'PartialOrd': ['PartialEq'], 'Eq': ['PartialEq'], 'Copy': ['Clone'], 'Ord': ['Eq', 'PartialOrd']}.get(s, [])
        return z3.And([self_holds(enc, req, x, educed, Wmap) for x in sup]) if sup else z3.BoolVal(True)
    if s in Wmap:
        return Wmap[s]
    if s == 'Eq' and 'PartialEq' in educed and 'Eq' in educed:
        return Wmap.get('PartialEq', enc.atom('Self:Eq'))
    return enc.atom(f'Self:{s}')


def header_constraints(enc, req):
    conj = []
    for k, n, b, d in req.params:
        if k == 'type' and b:
            for part in b.split('+'):
                tk = trait_key(part)
                conj.append(enc.b[(n, tk)] if tk else enc.atom(f'{n}:{norm(part)}'))
    if req.where:
        conj += parse_predicates(enc, req.where)
    return conj


def split_top(s, sep=','):
    out, depth, cur = [], 0, ''
    for c in s:
        if c in '<([':
            depth += 1
        elif c in '>)]':
            depth -= 1
        if c == sep and depth == 0:
            out.append(cur)
            cur = ''
        else:
            cur += c
    if cur.strip():
        out.append(cur)
    return out


def parse_predicates(enc, text):
    conj = []
    for pred in split_top(text):
        pred = pred.strip()
        if not pred:
            continue
        if ':' not in pred:
            conj.append(enc.atom(norm(pred)))
            continue
        lhs, rhs = pred.split(':', 1) if not pred.startswith("'") else (pred, '')
        if pred.startswith("'"):
            conj.append(enc.atom(norm(pred)))
            continue
        # careful with paths containing '::' in the bound
        m = re.match(r'^([^:]+(?:<.*>)?)\s*:(?!:)\s*(.*)$', pred)
        lhs, rhs = m.group(1), m.group(2)
        term = parse_term(lhs)
        for part in split_top(rhs, '+'):
            tk = trait_key(part)
            if term is not None and tk is not None:
                conj.append(enc.holds(term, tk))
            else:
                conj.append(enc.atom(norm(lhs) + ':' + norm(part)))
    return conj


def mode_constraints(enc, req, bound_tr, mode):
    if mode is False or (isinstance(mode, tuple) and mode[0] in ('empty', 'falselist')):
        return []
    if mode == '*':
        return [enc.b[(n, bound_tr)] for n in req.type_params()]
    txt = mode[1] if isinstance(mode, tuple) else mode
    return parse_predicates(enc, txt)


# ------------------------------------------------------------------ W: what educe really emitted
def W_formula(enc, req, impl, Wmap, educed):
    conj = []
    for p in impl['params']:
        if p['kind'] == 'type':
            for b in p['bounds']:
                tk = trait_key(b)
                conj.append(enc.b[(p['name'], tk)] if tk and p['name'] in enc.params else enc.atom(f"{p['name']}:{norm(b)}"))
    for w in impl['where']:
        if w['kind'] != 'type':
            conj.append(enc.atom(norm(w.get('lhs', '') + ':' + '+'.join(w.get('bounds', [])) + w.get('text', ''))))
            continue
        lhs = norm(w['lhs'])
        for b in w['bounds']:
            tk = trait_key(b)
            if lhs == 'Self' and tk:
                conj.append(self_holds(enc, req, tk, educed, Wmap))
                continue
            term = parse_term(lhs)
            if term is not None and tk is not None:
                conj.append(enc.holds(term, tk))
            else:
                conj.append(enc.atom(lhs + ':' + norm(b)))
    return z3.And(conj) if conj else z3.BoolVal(True)


def custom_predicates_present(req, mode, impl):
    """`bound(p1, p2, ..)` / `bound = ".."` adds exactly the given predicates: each must appear among the emitted ones"""
    if not isinstance(mode, (str, tuple)) or mode == '*':
        return True, ''
    if isinstance(mode, tuple) and mode[0] in ('empty', 'falselist'):
        return True, ''
    txt = mode[1] if isinstance(mode, tuple) else mode
    emitted = set()
    for w in impl['where']:
        lhs = norm(w.get('lhs', ''))
        for b in w.get('bounds', []):
            emitted.add(lhs + ':' + norm(b))
        if w['kind'] != 'type':
            emitted.add(norm(w.get('lhs', '') + ':' + '+'.join(w.get('bounds', []))))
    for pred in split_top(txt):
        pred = pred.strip()
        if not pred:
            continue
        m = re.match(r"^(.+?)\s*:(?!:)\s*(.*)$", pred)
        if not m:
            continue
        for part in split_top(m.group(2), '+'):
            if norm(m.group(1)) + ':' + norm(part) not in emitted:
                return False, f'custom predicate `{pred}` is not in the emitted where-clause {sorted(emitted)}'
    return True, ''


def own_where_present(req, impl):
    """every impl repeats the type's own where-clause, in every bound mode (an impl without it is not even well-formed)"""
    if not req.where:
        return True, ''
    return custom_predicates_present(req, ('list', req.where), impl)


def no_extra_predicates(req, tr, mode, impl, educed):
    """explicit modes add *exactly* the given predicates: with `bound = false` / `bound = ""` / `bound(..)` the emitted where-clause holds
    the type's own where-clause and the given predicates and nothing else (an automatic predicate sneaking in next to them can be
    semantically invisible — `PhantomData<U>: Clone` — and still is not what was asked for)"""
    eff = mode
    partner = {'Eq': 'PartialEq', 'Copy': 'Clone', 'PartialOrd': 'Ord'}.get(tr)
    if partner and partner in educed:
        eff = dict(req.traits).get(partner)      # the companion impl is emitted with the primary's header
    if eff is None or eff == '*':
        return True, ''
    allowed = set()
    texts = [req.where or '']
    if isinstance(eff, tuple) and eff[0] not in ('empty', 'falselist'):
        texts.append(eff[1])
    elif isinstance(eff, str):
        texts.append(eff)
    for txt in texts:
        for pred in split_top(txt):
            pred = pred.strip()
            m = re.match(r"^(.+?)\s*:(?!:)\s*(.*)$", pred) if pred else None
            if not m:
                continue
            for part in split_top(m.group(2), '+'):
                allowed.add(norm(m.group(1)) + ':' + norm(part))
    for w in impl['where']:
        lhs = norm(w.get('lhs', ''))
        for b in w.get('bounds', []):
            if lhs + ':' + norm(b) not in allowed:
                return False, f'the emitted where-clause holds `{w.get("lhs")}: {b}`, which is neither in the type\'s own where-clause nor among the given predicates (mode {eff})'
    return True, ''


def header_matches(req, impl):
    """the impl header repeats the type's lifetime / type / const parameters with inline bounds, minus defaults"""
    want = [(k, n, norm(b or '')) for k, n, b, d in req.params]
    got = []
    for p in impl['params']:
        if p['kind'] == 'lifetime':
            got.append(('lifetime', norm(p['name']), norm('+'.join(p['bounds']))))
        elif p['kind'] == 'type':
            if p.get('default'):
                return False, 'default kept in impl header'
            got.append(('type', p['name'], norm('+'.join(p['bounds']))))
        else:
            if p.get('default'):
                return False, 'const default kept in impl header'
            got.append(('const', p['name'], ''))
    want = [(k, norm(n), b) for k, n, b in want]
    if want != got:
        return False, f'parameters {got} != {want}'
    args = [norm(n) for k, n, b, d in req.params]
    self_ty = norm(impl['self_ty'])
    exp = 'Ty' + ('<' + ','.join(args) + '>' if args else '')
    if self_ty != exp:
        return False, f'self type {self_ty} != {exp}'
    return True, ''


# ------------------------------------------------------------------ corpus
def tparams(names, bounds=None):
    bounds = bounds or {}
    return [('type', n, bounds.get(n), None) for n in names]


def c11_corpus(tier, seed):
    """generic requests with default (automatic) bounds; every delegation-deciding attribute per trait"""
    reqs = []
    T, U, V = P('T'), P('U'), P('V')
    n = [0]

    def add(kind, params, variants, traits, **kw):
        n[0] += 1
        reqs.append(Req(f'r{n[0]:03d}', kind, params, variants, traits, **kw))

    simple = ['Debug', 'Hash', 'PartialEq']
    # field-type grammar x role for each single-carrier trait
    for tr in ['Debug', 'Hash', 'PartialEq', 'Clone']:
        roles = ['ignore', 'method'] if tr != 'Clone' else ['method']
        for role in roles:
            add('struct', tparams(['T', 'U']), [('S', 'named', [Field(T), Field(U, **{tr: role}), Field(U8)], False)], [(tr, None)])
            add('struct', tparams(['T', 'U', 'V']), [('S', 'tuple', [Field(OPT(T)), Field(PAIR(U, V), **{tr: role}), Field(PH(V))], False)], [(tr, None)])
            add('enum', tparams(['T', 'U']), [('A', 'tuple', [Field(T, **{tr: role}), Field(NOIMPL, **{tr: role})], False), ('B', 'named', [Field(ARR(U))], False), ('C', 'unit', [], False)], [(tr, None)])
            add('enum', tparams(['T', 'U', 'V']), [('A', 'named', [Field(BOX(T)), Field(U, **{tr: role})], False), ('B', 'tuple', [Field(V, **{tr: role}), Field(PH(U))], False)], [(tr, None)])
        add('struct', tparams(['T', 'U']), [('S', 'named', [Field(PH(T)), Field(U)], False)], [(tr, None)])
        add('struct', [], [('S', 'unit', [], False)], [(tr, None)])
        add('enum', tparams(['T', 'U']), [('A', 'unit', [], False), ('B', 'tuple', [Field(PAIR(T, OPT(U)))], False)], [(tr, None)])
    # Debug presentation options select different field loops in the handlers; none of them concerns bounds
    for role in ['ignore', 'method']:
        add('struct', tparams(['T', 'U']), [('S', 'named', [Field(T), Field(U, Debug=role)], False)], [('Debug', None)], topt={'Debug': 'named_field = false'})
        add('struct', tparams(['T', 'U']), [('S', 'tuple', [Field(U, Debug=role), Field(OPT(T))], False)], [('Debug', None)], topt={'Debug': 'named_field = true'})
        add('struct', tparams(['T', 'U']), [('S', 'named', [Field(U, Debug=role), Field(T)], False)], [('Debug', None)], topt={'Debug': 'name = false'})
        add('enum', tparams(['T', 'U', 'V']), [('A', 'named', [Field(T), Field(U, Debug=role)], False), ('B', 'tuple', [Field(V, Debug=role), Field(PH(U))], False)], [('Debug', None)],
            vattr={'A': 'Debug(named_field = false)', 'B': 'Debug(named_field = true)'})
        add('enum', tparams(['T', 'U', 'V']), [('A', 'named', [Field(V, Debug=role), Field(T)], False), ('B', 'tuple', [Field(U, Debug=role), Field(PH(V)), Field(PH(U))], False)], [('Debug', None)],
            vattr={'A': 'Debug(name = false)', 'B': 'Debug(name = Bee)'}, topt={'Debug': 'name = true'})
    # parenthesised field types `(T)`, `(Option<U>)`: the same types as without parentheses
    for tr in ['Debug', 'Clone', 'PartialEq', 'Hash', 'Default']:
        add('struct', tparams(['T', 'U']), [('S', 'named', [Field(PAREN(T)), Field(PAREN(OPT(U))), Field(U8)], False)], [(tr, None)])
    add('enum', tparams(['T', 'U']), [('A', 'tuple', [Field(PAREN(T), PartialOrd='ignore'), Field(PAREN(PAIR(U, U8)))], False), ('B', 'unit', [], False)], [('PartialOrd', None)], hand=['PartialEq'])
    # reference-typed fields `&'a T`: the field type itself is bounded (`&'a T: Clone` holds for every T), never the referent
    LTU = [('lifetime', "'a", None, None)] + tparams(['T', 'U'])
    for trs in [[('Clone', None)], [('Copy', None), ('Clone', None)], [('Debug', None)], [('PartialEq', None)], [('Hash', None)], [('PartialOrd', None)]]:
        hand = ['PartialEq'] if trs[0][0] == 'PartialOrd' else []
        add('struct', LTU, [('S', 'named', [Field(REF(T)), Field(U), Field(U8)], False)], trs, hand=hand)
        add('enum', LTU, [('A', 'tuple', [Field(REF(T))], False), ('B', 'named', [Field(OPT(REF(U))), Field(LTPH)], False)], trs, hand=hand)
    add('struct', LTU, [('S', 'tuple', [Field(REF(T), Default='expr'), Field(U)], False)], [('Default', None)])
    # a user type that is merely *named* PhantomData (it carries a T and implements each trait only when T does): bounded like any field type
    for trs, hand in [([('Eq', None)], ['PartialEq']), ([('PartialEq', None)], []), ([('Hash', None)], []), ([('Clone', None)], []), ([('Debug', None)], []), ([('Default', None)], []), ([('Copy', None)], ['Clone']),
                      ([('PartialOrd', None)], ['PartialEq'])]:
        add('struct', tparams(['T', 'U']), [('S', 'named', [Field(UPH(T)), Field(PH(U)), Field(U8)], False)], trs, hand=hand)
        add('enum', tparams(['T', 'U']), [('A', 'tuple', [Field(UPH(T))], trs[0][0] == 'Default'), ('B', 'named', [Field(OPT(UPH(U)))], False)], trs, hand=hand)
    # Eq next to PartialEq (companion), attributes carried by Eq(..)
    add('struct', tparams(['T', 'U']), [('S', 'named', [Field(T), Field(U, Eq='ignore')], False)], [('PartialEq', None), ('Eq', None)])
    add('enum', tparams(['T', 'U']), [('A', 'tuple', [Field(T, PartialEq='method'), Field(OPT(U))], False), ('B', 'unit', [], False)], [('PartialEq', None), ('Eq', None)])
    # stand-alone Eq: every field
    add('struct', tparams(['T', 'U']), [('S', 'named', [Field(T), Field(PH(U))], False)], [('Eq', None)], hand=['PartialEq'])
    add('enum', tparams(['T', 'U']), [('A', 'tuple', [Field(T)], False), ('B', 'named', [Field(OPT(U))], False)], [('Eq', None)], hand=['PartialEq'])
    add('union', tparams(['T', 'U'], {'T': 'Copy', 'U': 'Copy'}), [('S', 'named', [Field(T), Field(U)], False)], [('Eq', None)], hand=['PartialEq'])
    # Copy with Clone (companion; Clone then requires Copy of every field), stand-alone Copy
    add('struct', tparams(['T', 'U']), [('S', 'named', [Field(T), Field(OPT(U))], False)], [('Copy', None), ('Clone', None)])
    add('enum', tparams(['T', 'U']), [('A', 'tuple', [Field(T), Field(PH(U))], False), ('B', 'unit', [], False)], [('Copy', None), ('Clone', None)])
    add('struct', tparams(['T', 'U']), [('S', 'tuple', [Field(T), Field(PAIR(U, U8))], False)], [('Copy', None)], hand=['Clone'])
    cp = {'T': 'Copy', 'U': 'Copy'}
    add('union', tparams(['T', 'U'], cp), [('S', 'named', [Field(T), Field(U)], False)], [('Copy', None), ('Clone', None)])
    # PartialOrd (Self: PartialEq), Ord (Self: Eq [+ Self: PartialOrd]), companions
    for role in ['ignore', 'method']:
        add('struct', tparams(['T', 'U']), [('S', 'named', [Field(T), Field(U, PartialOrd=role)], False)], [('PartialEq', None), ('PartialOrd', None)])
        add('enum', tparams(['T', 'U']), [('A', 'tuple', [Field(T, PartialOrd=role), Field(OPT(U))], False), ('B', 'unit', [], False)], [('PartialOrd', None)], hand=['PartialEq'])
        add('struct', tparams(['T', 'U']), [('S', 'named', [Field(T), Field(U, Ord=role)], False)], [('PartialEq', None), ('Eq', None), ('PartialOrd', None), ('Ord', None)])
        add('enum', tparams(['T', 'U']), [('A', 'named', [Field(T, PartialOrd=role), Field(U)], False), ('B', 'tuple', [Field(PAIR(T, U))], False)], [('PartialEq', None), ('Eq', None), ('PartialOrd', None), ('Ord', None)])
        add('struct', tparams(['T', 'U']), [('S', 'tuple', [Field(T, Ord=role), Field(ARR(U))], False)], [('PartialEq', None), ('Eq', None), ('Ord', None)], hand=['PartialOrd'])
        add('enum', tparams(['T']), [('A', 'tuple', [Field(T, Ord=role)], False), ('B', 'tuple', [Field(OPT(T))], False)], [('Ord', None)], hand=['PartialEq', 'Eq', 'PartialOrd'])
    # Default: only the fields actually defaulted
    add('struct', tparams(['T', 'U']), [('S', 'named', [Field(T), Field(U, Default='expr')], False)], [('Default', None)])
    add('struct', tparams(['T', 'U']), [('S', 'tuple', [Field(OPT(T)), Field(PAIR(U, U8))], False)], [('Default', None)])
    add('enum', tparams(['T', 'U', 'V']), [('A', 'tuple', [Field(T)], False), ('B', 'named', [Field(U), Field(V, Default='expr')], True), ('C', 'unit', [], False)], [('Default', None)])
    add('enum', tparams(['T', 'U']), [('A', 'unit', [], True), ('B', 'tuple', [Field(T), Field(U)], False)], [('Default', None)])
    add('enum', tparams(['T']), [('A', 'tuple', [Field(ARR(T))], False)], [('Default', None)])
    # an expression on a generic field in every handler arm (named / tuple struct, named / tuple default variant, marked or only variant)
    add('struct', tparams(['T', 'U']), [('S', 'tuple', [Field(T, Default='expr'), Field(OPT(U))], False)], [('Default', None)])
    add('enum', tparams(['T', 'U', 'V']), [('A', 'unit', [], False), ('B', 'tuple', [Field(T, Default='expr'), Field(U), Field(PH(V), Default='expr')], True)], [('Default', None)])
    add('enum', tparams(['T', 'U']), [('A', 'tuple', [Field(BOX(T)), Field(U, Default='expr')], False)], [('Default', None)])
    add('enum', tparams(['T', 'U']), [('A', 'named', [Field(T, Default='expr'), Field(PAIR(U, U8))], False)], [('Default', None)])
    add('union', tparams(['T', 'U'], cp), [('S', 'named', [Field(T, Default='marker'), Field(U)], False)], [('Default', None)], hand=[])
    add('union', tparams(['T', 'U'], cp), [('S', 'named', [Field(T), Field(U, Default='expr')], False)], [('Default', None)], hand=[])
    # Into(u8): only the chosen field, only if it needs conversion
    add('struct', tparams(['T', 'U']), [('S', 'named', [Field(T, Into='into'), Field(U)], False)], [('Into', None)])
    add('struct', tparams(['T', 'U']), [('S', 'named', [Field(T), Field(U8), Field(U)], False)], [('Into', None)])
    add('struct', tparams(['T']), [('S', 'tuple', [Field(T)], False)], [('Into', None)])
    add('struct', tparams(['T', 'U']), [('S', 'named', [Field(T, Into='intom'), Field(U)], False)], [('Into', None)])
    add('enum', tparams(['T', 'U']), [('A', 'tuple', [Field(T, Into='into'), Field(U)], False), ('B', 'named', [Field(U8), Field(U)], False)], [('Into', None)])
    # several Into targets on one type: each impl is constrained by its own chosen field only
    add('struct', tparams(['T', 'U']), [('S', 'named', [Field(T, Into='into'), Field(U, Into16='into')], False)], [('Into', None), ('Into16', None)])
    add('struct', tparams(['T']), [('S', 'tuple', [Field(T, Into='into', Into16='into')], False)], [('Into', None), ('Into16', None)])
    add('struct', tparams(['T', 'U']), [('S', 'named', [Field(T, Into='intom'), Field(U, Into16='into')], False)], [('Into16', None), ('Into', None)])
    add('enum', tparams(['T', 'U']), [('A', 'tuple', [Field(T, Into='into', Into16='into'), Field(U)], False), ('B', 'named', [Field(U, Into='into', Into16='intom'), Field(T)], False)], [('Into', None), ('Into16', None)])
    # Deref / DerefMut: never constrained
    add('struct', tparams(['T', 'U']), [('S', 'named', [Field(T, Deref='marker', DerefMut='marker'), Field(U)], False)], [('Deref', None), ('DerefMut', None)])
    # several traits at once on one request (each trait has its own delegation)
    add('struct', tparams(['T', 'U', 'V']), [('S', 'named', [Field(T, Debug='ignore'), Field(U, Hash='ignore', PartialEq='method'), Field(V, Clone='method')], False)],
        [('Debug', None), ('Clone', None), ('PartialEq', None), ('Hash', None)])
    if tier != 'quick':
        rng = random.Random(seed * 131 + 7)
        terms = [T, U, V, U8, OPT(T), OPT(U), PAIR(T, U), PAIR(U, V), ARR(V), BOX(T), PH(U), PH(V)]
        for _ in range(120):
            tr = rng.choice(['Debug', 'Hash', 'PartialEq', 'Clone'])
            roles = ['ignore', 'method', None, None] if tr != 'Clone' else ['method', None]
            vs = []
            for k in range(rng.randint(1, 3)):
                fs = []
                for _ in range(rng.randint(0, 3)):
                    role = rng.choice(roles)
                    fs.append(Field(rng.choice(terms), **({tr: role} if role else {})))
                vs.append((['A', 'B', 'C'][k], rng.choice(['named', 'tuple']) if fs else 'unit', fs, False))
            kind = 'enum' if len(vs) > 1 or rng.random() < 0.3 else 'struct'
            # every type parameter must be used somewhere: a PhantomData field mentioning all of them
            vs.append(('Z', 'tuple', [Field(PH(PAIR(T, PAIR(U, V))))], False))
            if kind == 'struct':
                vn, vk, fs, dm = vs[0]
                vs = [(vn, 'tuple' if vk == 'unit' else vk, list(fs) + [Field(PH(PAIR(T, PAIR(U, V))))], dm)]
            kw = {}
            if tr == 'Debug':
                opts = [None, 'named_field = false', 'named_field = true', 'name = false']
                if kind == 'struct':
                    o = rng.choice(opts)
                    if o:
                        kw['topt'] = {'Debug': o}
                else:
                    kw['vattr'] = {vn: f'Debug({o})' for vn, vk, _, _ in vs for o in [rng.choice(opts)] if o and vk != 'unit'}
            add(kind, tparams(['T', 'U', 'V']), vs, [(tr, None)], **kw)
    return reqs


def c12_corpus(tier, seed):
    """explicit bound modes, and generic parameter lists / where-clauses reproduced in every impl header"""
    reqs = []
    T, U = P('T'), P('U')
    TU0 = [('type', 'T', None, None), ('type', 'U', None, None)]
    n = [0]

    def add(kind, params, variants, traits, **kw):
        n[0] += 1
        if any(p[0] == 'lifetime' for p in params):
            vn, vk, fs, dm = variants[0]
            variants = [(vn, vk, list(fs) + [Field(LTPH)], dm)] + list(variants[1:])
        reqs.append(Req(f'q{n[0]:03d}', kind, params, variants, traits, **kw))

    rich = [('lifetime', "'a", None, None), ('type', 'T', 'Marker', None), ('const', 'N', None, None), ('type', 'U', None, 'u8')]
    modes = ['*', False, ('empty', ''), ('falselist', ''), ('list', 'T: {tr}'), ('str', 'T: {tr}'), ('liststr', 'U: {tr}'), ('list', 'T: {tr}, U: {tr}'), ('list', 'Option<U>: {tr}'), ('list', 'U: Iterator<Item = T>')]
    for tr in ['Debug', 'Clone', 'PartialEq', 'Hash', 'Default', 'PartialOrd', 'Ord', 'Eq', 'Copy']:
        # predicate lists with a trailing comma, in the string and in the token spelling
        trailing = [('str', 'T: {tr},'), ('list', 'T: {tr}, U: {tr},'), ('liststr', 'U: {tr},')]
        sel = (modes + trailing) if tier != 'quick' else [modes[0], modes[1], modes[(len(tr) % 3) + 2], modes[(len(tr) % 4) + 5], trailing[len(tr) % 3], trailing[(len(tr) + 1) % 3]]
        for mi, mode in enumerate(sel):
            m = mode
            if isinstance(mode, tuple):
                m = (mode[0], mode[1].replace('{tr}', TPATH[tr]))
            fields = [Field(T, **({tr: 'ignore'} if tr in ('Debug', 'PartialEq', 'Hash', 'PartialOrd', 'Ord') else {})), Field(PH(U)), Field(U8)]
            traits = [(tr, m)]
            hand = []
            if tr == 'PartialOrd':
                hand = ['PartialEq']
            if tr == 'Ord':
                hand = ['PartialEq', 'Eq', 'PartialOrd']
            if tr == 'Eq':
                hand = ['PartialEq']
                fields = [Field(PH(T)), Field(PH(U)), Field(U8)]
            if tr == 'Copy':
                hand = ['Clone']
                fields = [Field(PH(T)), Field(PH(U)), Field(U8)]
            if tr == 'Clone':
                fields = [Field(T, Clone='method'), Field(PH(U)), Field(U8)]
            if tr == 'Default':
                fields = [Field(T, Default='expr'), Field(PH(U)), Field(U8)]
            kw = {}
            if tr == 'Debug':
                kw = [dict(topt={'Debug': 'named_field = false'}), dict(vattr={'A': 'Debug(named_field = true)'}), dict(topt={'Debug': 'name = false'}), dict(vattr={'A': 'Debug(name = false)'})][mi % 4]
            if mi % 2 == 0:
                add('struct', rich, [('S', 'named', fields, False)], traits, hand=hand, where='T: Marker2, U: Iterator<Item = u8>' if mi % 4 == 0 else None, wstyle='trailing' if mi % 8 == 4 else 'plain', **kw)
            else:
                add('enum', rich, [('A', 'tuple', fields, tr == 'Default'), ('B', 'unit', [], False)], traits, hand=hand, where="U: 'a" if mi % 4 == 1 else None, wstyle='trailing' if mi % 8 == 5 else 'plain', **kw)
    # explicit modes on types in which no field is delegated to the trait (all ignored / method-handled / given an expression):
    # `bound(*)` still constrains every type parameter, custom predicates are still added
    for tr in ['Debug', 'Clone', 'PartialEq', 'Hash', 'Default', 'PartialOrd', 'Ord']:
        role_a = {'Clone': 'method', 'Default': 'expr'}.get(tr, 'ignore')
        role_b = {'Default': 'expr'}.get(tr, 'method')
        hand = {'PartialOrd': ['PartialEq'], 'Ord': ['PartialEq', 'Eq', 'PartialOrd']}.get(tr, [])
        for mi, mode in enumerate(['*', ('list', 'U: ' + TPATH[tr]), None]):
            fs = [Field(T, **{tr: role_a}), Field(PH(U), **{tr: role_b})]
            if mi % 2 == 0:
                add('struct', TU0, [('S', 'named' if tr < 'H' else 'tuple', fs, False)], [(tr, mode)], hand=hand)
            else:
                add('enum', TU0, [('A', 'tuple', fs, tr == 'Default'), ('B', 'unit', [], False)], [(tr, mode)], hand=hand)
    # inline bounds whose trait merely shares its last path segment with the educed trait (a user trait called Debug, `Into<u16>` next to
    # `Into<u8>`): `bound(*)` still has to add its own predicate for that parameter
    for tr in ['Debug', 'Clone', 'Hash', 'PartialEq', 'Default']:
        role = {'Clone': 'method', 'Default': 'expr'}.get(tr, 'ignore')
        ps = [('type', 'T', f'userlib::{tr}', None), ('type', 'U', None, None)]
        add('struct', ps, [('S', 'named', [Field(T, **{tr: role}), Field(PH(U), **{tr: role})], False)], [(tr, '*')])
        add('enum', ps, [('A', 'tuple', [Field(T), Field(U, **{tr: role})], tr == 'Default'), ('B', 'unit', [], False)], [(tr, '*')])
    add('struct', [('type', 'T', '::core::convert::Into<u16>', None), ('type', 'U', None, None)], [('S', 'named', [Field(T, Into='intom'), Field(U)], False)], [('Into', '*')])
    # per-target bounds on Into
    for m in [None, '*', ('list', 'T: ::core::convert::Into<u8>'), ('str', 'T: ::core::convert::Into<u8>, U: ::core::clone::Clone')]:
        add('struct', [('type', 'T', None, None), ('type', 'U', None, None)], [('S', 'named', [Field(T, Into='into'), Field(U)], False)], [('Into', m)])
    for m in [False, ('empty', ''), ('liststr', 'U: ::core::clone::Clone'), '*']:
        add('struct', [('type', 'T', None, None), ('type', 'U', None, None)], [('S', 'named', [Field(T, Into='intom'), Field(U)], False)], [('Into', m)])
    # per-target bounds with two targets: the predicates given for one target must not reach the other impl
    TU = [('type', 'T', None, None), ('type', 'U', None, None)]
    add('struct', TU, [('S', 'named', [Field(T, Into='into'), Field(U, Into16='into')], False)], [('Into', ('list', 'T: ::core::convert::Into<u8>')), ('Into16', ('str', 'U: ::core::convert::Into<u16>'))])
    add('struct', TU, [('S', 'named', [Field(T, Into='into'), Field(U, Into16='into')], False)], [('Into16', '*'), ('Into', ('list', 'T: ::core::convert::Into<u8>'))])
    add('struct', TU, [('S', 'tuple', [Field(T, Into='into', Into16='into'), Field(PH(U))], False)], [('Into', None), ('Into16', ('list', 'T: ::core::convert::Into<u16>, U: ::core::clone::Clone'))])
    add('enum', TU, [('A', 'tuple', [Field(T, Into='into', Into16='into'), Field(U)], False), ('B', 'named', [Field(T, Into='into', Into16='into')], False)], [('Into', ('list', 'T: ::core::convert::Into<u8>')), ('Into16', ('liststr', 'T: ::core::convert::Into<u16>'))])
    # parameter lists without any type parameter: const-only and lifetime-only
    CN = [('const', 'N', None, None)]
    LA = [('lifetime', "'a", None, None)]
    add('struct', CN, [('S', 'tuple', [Field(ARRN)], False)], [('Default', ('list', '[u8; N]: ::core::default::Default'))])
    add('struct', CN, [('S', 'named', [Field(ARRN), Field(U8)], False)], [('Clone', ('str', '[u8; N]: ::core::clone::Clone')), ('Default', None)])
    add('enum', CN, [('A', 'tuple', [Field(ARRN)], True), ('B', 'unit', [], False)], [('Default', None), ('Debug', ('list', '[u8; N]: ::core::fmt::Debug'))])
    add('struct', LA, [('S', 'tuple', [Field(LTPH), Field(U8)], False)], [('Debug', ('list', "'a: 'static")), ('PartialEq', ('str', "'a: 'static"))])
    add('struct', LA + CN, [('S', 'tuple', [Field(LTPH), Field(ARRN)], False)], [('Hash', ('list', "'a: 'static, [u8; N]: ::core::hash::Hash")), ('Clone', '*')])
    # spellings of the user's where-clause (trailing comma as rustfmt writes it; bare `where`): every handler must still emit a well-formed header
    HAND = {'PartialOrd': ['PartialEq'], 'Ord': ['PartialEq', 'Eq', 'PartialOrd'], 'Eq': ['PartialEq'], 'Copy': ['Clone']}
    k = 0
    for tr in ['Debug', 'Clone', 'Copy', 'PartialEq', 'Eq', 'PartialOrd', 'Ord', 'Hash', 'Default', 'Into', 'Deref']:
        for kind in ['struct', 'enum', 'union']:
            if kind == 'union' and tr in ('Eq', 'PartialOrd', 'Ord', 'Into', 'Deref'):
                continue
            for wstyle in ['trailing', 'bare']:
                k += 1
                mode = None if (k % 2 or tr in ('Deref', 'Copy', 'Eq') or kind == 'union') else ('list', 'T: ' + TPATH.get(tr, '::core::convert::Into<u8>'))
                inl = {'T': 'Copy', 'U': 'Copy'} if kind == 'union' else {}
                first = Field(T, **({'Into': 'into'} if tr == 'Into' else {'Deref': 'marker', 'DerefMut': 'marker'} if tr == 'Deref' else {'Default': 'marker'} if (tr == 'Default' and kind == 'union') else {}))
                traits = [(tr, mode)] if tr != 'Deref' else [('Deref', None), ('DerefMut', None)]
                if kind == 'union' and tr == 'Clone':
                    traits = [('Copy', None), ('Clone', None)]     # a union's educed Clone is `*self`: the union itself must be Copy
                where = 'T: Marker2' if wstyle == 'trailing' else None
                if kind == 'struct':
                    vs = [('S', 'named' if k % 4 < 2 else 'tuple', [first, Field(PH(U))], False)]
                elif kind == 'union':
                    vs = [('S', 'named', [first, Field(U)], False)]
                else:
                    vs = [('A', 'tuple', [first, Field(PH(U))], tr == 'Default')] + ([('B', 'unit', [], False)] if tr not in ('Into', 'Deref') else [('B', 'named', [Field(T, **first.roles), Field(U)], False)])
                add(kind, tparams(['T', 'U'], inl), vs, traits, hand=HAND.get(tr, []) if kind != 'union' else ([] if tr != 'Copy' else ['Clone']), where=where, wstyle=wstyle)
    # auto mode on rich headers: header must still be reproduced
    for tr in ['Debug', 'Clone', 'PartialEq', 'Hash', 'Default']:
        add('struct', rich, [('S', 'named', [Field(T), Field(PH(U)), Field(U8)], False)], [(tr, None)], where='T: Marker2')
    add('struct', rich, [('S', 'tuple', [Field(T, Deref='marker', DerefMut='marker'), Field(PH(U))], False)], [('Deref', None), ('DerefMut', None)], where='T: Marker2')
    # Into targets for which the derive adds no predicate of its own (field already of the target type, method) on types
    # that carry a where-clause: the type's own predicates must still be there
    add('struct', TU0, [('S', 'named', [Field(T), Field(U8), Field(U)], False)], [('Into', None)], where='T: Marker2')
    add('struct', TU0, [('S', 'named', [Field(T, Into='intom'), Field(U)], False)], [('Into', None)], where='U: Marker')
    add('enum', TU0, [('A', 'tuple', [Field(U8), Field(T)], False), ('B', 'named', [Field(U8)], False)], [('Into', None)], where='T: Marker2')
    add('struct', TU0, [('S', 'named', [Field(T, Into='into'), Field(U8, Into16='into'), Field(PH(U))], False)], [('Into', None), ('Into16', None)], where='U: Marker')
    # Default with a type-level expression: no field is delegated, explicit bound modes still apply (and `new` with them)
    for mi, mode in enumerate([None, '*', ('list', 'T: ' + TPATH['Default']), ('str', 'U: Marker'), False, ('list', 'T: Marker, U: ' + TPATH['Default'] + ',')]):
        ex = 'expression = anyv()' + (', new' if mi % 2 else '')
        add('struct', TU0, [('S', 'named', [Field(T), Field(PH(U)), Field(U8)], False)], [('Default', mode)], topt={'Default': ex})
        add('enum', TU0, [('A', 'tuple', [Field(T), Field(OPT(U))], False), ('B', 'unit', [], False)], [('Default', mode)], topt={'Default': ex.replace('expression = anyv()', 'expression(anyv())')})
    # companion impls (Eq with PartialEq, PartialOrd with Ord, Copy with Clone) on rich headers, struct and enum: the partner impl is emitted
    # by the primary's handler and must reproduce the header as well (lifetimes first, inline bounds kept, defaults dropped)
    for pair, hand in [([('PartialEq', None), ('Eq', None)], []), ([('PartialOrd', None), ('Ord', None)], ['PartialEq', 'Eq']), ([('Ord', None), ('PartialOrd', None)], ['PartialEq', 'Eq'])]:
        add('struct', rich, [('S', 'named', [Field(T), Field(PH(U)), Field(U8)], False)], pair, hand=hand, where='T: Marker2')
        add('enum', rich, [('A', 'tuple', [Field(T), Field(PH(U))], False), ('B', 'unit', [], False)], pair, hand=hand)
    add('struct', rich, [('S', 'named', [Field(PH(T)), Field(PH(U)), Field(U8)], False)], [('Copy', None), ('Clone', None)])
    add('enum', rich, [('A', 'tuple', [Field(PH(T)), Field(PH(U))], False), ('B', 'unit', [], False)], [('Clone', None), ('Copy', None)], where='T: Marker2')
    return reqs


# ------------------------------------------------------------------ expander and probe
def build_expander(features=None, target='target-expander'):
    """features None: educe's default (all twelve); a list: `--no-default-features --features ..` (C18 subset differential)"""
    src = os.path.join(VERIF, 'tools', 'expander')
    d = src
    if os.path.abspath(REPO) != '/repo':
        # another repository root (vp run --with-repo): build a copy of the tool crate that points at it
        d = os.path.join(WORK, 'expander_src')
        shutil.rmtree(d, ignore_errors=True)
        shutil.copytree(src, d, ignore=shutil.ignore_patterns('target'))
        ct = open(os.path.join(d, 'Cargo.toml')).read().replace('path = "/repo/src/lib.rs"', f'path = "{os.path.join(REPO, "src", "lib.rs")}"')
        open(os.path.join(d, 'Cargo.toml'), 'w').write(ct)
    cmd = ['cargo', 'build', '--release', '--offline', '--target-dir', os.path.join(WORK, target)]
    if features is not None:
        cmd += ['--no-default-features', '--features', ' '.join(features)]
    rc, out = sh(cmd, cwd=d, timeout=1200)
    if rc != 0:
        return None, out[-3000:]
    exe = os.path.join(WORK, target, 'release', 'expand')
    if features is not None:
        dst = exe + '-' + ('_'.join(features) or 'none')
        shutil.copy(exe, dst)
        return dst, ''
    return exe, ''


def expand(exe, reqs):
    inp = ''.join(json.dumps({'id': r.rid, 'src': r.source(with_derive=False)}) + '\n' for r in reqs)
    p = subprocess.run([exe], input=inp, stdout=subprocess.PIPE, stderr=subprocess.PIPE, text=True, timeout=600)
    res = {}
    for line in p.stdout.splitlines():
        if line.strip():
            o = json.loads(line)
            res[o['id']] = o
    return res


PROBE_PRELUDE = '''#![allow(dead_code, unused_imports, unused_variables, non_camel_case_types, unused_macros)]
use educe::Educe;
use core::cmp::Ordering;
pub trait Marker {}
pub trait Marker2 {}
pub mod userlib { pub trait Debug {} pub trait Clone {} pub trait Hash {} pub trait PartialEq {} pub trait Default {} }
pub struct NoImpl;
pub mod tags { #[derive(Debug, Clone, Copy, PartialEq, Eq, PartialOrd, Ord, Hash, Default)] pub struct PhantomData<T>(pub T); }
pub fn any_fmt<T>(_v: &T, f: &mut core::fmt::Formatter<'_>) -> core::fmt::Result { f.write_str("?") }
pub fn any_clone<T>(_v: &T) -> T { loop {} }
pub fn any_eq<T>(_a: &T, _b: &T) -> bool { true }
pub fn any_pcmp<T>(_a: &T, _b: &T) -> Option<Ordering> { None }
pub fn any_cmp<T>(_a: &T, _b: &T) -> Ordering { Ordering::Equal }
pub fn any_hash<T, H: core::hash::Hasher>(_v: &T, _h: &mut H) {}
pub fn any_into<T>(_v: T) -> u8 { 0 }
pub fn any_into16<T>(_v: T) -> u16 { 0 }
pub fn anyv<T>() -> T { loop {} }
macro_rules! impls {
    ($t:ty : $($tr:tt)+) => {{
        trait DoesNotImpl { const IMPLS: bool = false; }
        impl<T: ?Sized> DoesNotImpl for T {}
        struct Wrapper<T: ?Sized>(core::marker::PhantomData<T>);
        #[allow(dead_code)]
        impl<T: ?Sized + $($tr)+> Wrapper<T> { const IMPLS: bool = true; }
        <Wrapper<$t>>::IMPLS
    }};
}
'''


def arg_type_decl(name, traits):
    """a concrete argument type implementing exactly `traits` (closed under supertraits)"""
    s = f'pub struct {name};\n'
    for t in traits:
        if t == 'Debug':
            s += f'impl core::fmt::Debug for {name} {{ fn fmt(&self, f: &mut core::fmt::Formatter<\'_>) -> core::fmt::Result {{ f.write_str("{name}") }} }}\n'
        elif t == 'Clone':
            s += f'impl Clone for {name} {{ fn clone(&self) -> Self {{ {name} }} }}\n'
        elif t == 'Copy':
            s += f'impl Copy for {name} {{}}\n'
        elif t == 'PartialEq':
            s += f'impl PartialEq for {name} {{ fn eq(&self, _o: &Self) -> bool {{ true }} }}\n'
        elif t == 'Eq':
            s += f'impl Eq for {name} {{}}\n'
        elif t == 'PartialOrd':
            s += f'impl PartialOrd for {name} {{ fn partial_cmp(&self, _o: &Self) -> Option<Ordering> {{ Some(Ordering::Equal) }} }}\n'
        elif t == 'Ord':
            s += f'impl Ord for {name} {{ fn cmp(&self, _o: &Self) -> Ordering {{ Ordering::Equal }} }}\n'
        elif t == 'Hash':
            s += f'impl core::hash::Hash for {name} {{ fn hash<H: core::hash::Hasher>(&self, _h: &mut H) {{}} }}\n'
        elif t == 'Default':
            s += f'impl Default for {name} {{ fn default() -> Self {{ {name} }} }}\n'
        elif t == 'IntoU8':
            s += f'impl Into<u8> for {name} {{ fn into(self) -> u8 {{ 0 }} }}\n'
        elif t == 'IntoU16':
            s += f'impl Into<u16> for {name} {{ fn into(self) -> u16 {{ 0 }} }}\n'
        elif t == 'Marker':
            s += f'impl Marker for {name} {{}}\nimpl Marker2 for {name} {{}}\n'
            s += ''.join(f'impl userlib::{u} for {name} {{}}\n' for u in ('Debug', 'Clone', 'Hash', 'PartialEq', 'Default'))
    return s


def close_super(ts):
    ts = set(ts)
    ch = True
    while ch:
        ch = False
        for t, sups in SUPER.items():
            if t in ts:
                for s in sups:
                    if s not in ts:
                        ts.add(s)
                        ch = True
    return ts


def hand_impls(req, name):
    """unconditional hand-written partner impls for the probe crate"""
    hdr = req.header().replace(' = u8', '')
    hdr_nodef = re.sub(r'\s*=\s*[^,>]+', '', req.header())
    args = '<' + ', '.join(n for k, n, b, d in req.params) + '>' if req.params else ''
    wh = f' where {req.where}' if req.where else ''
    s = ''
    def whr(extra):
        parts = [x for x in [req.where, extra] if x]
        return (' where ' + ', '.join(parts)) if parts else ''
    for h in req.hand:
        if h == 'PartialEq':
            s += f'impl{hdr_nodef} PartialEq for {name}{args}{whr(None)} {{ fn eq(&self, _o: &Self) -> bool {{ true }} }}\n'
        elif h == 'Eq':
            s += f'impl{hdr_nodef} Eq for {name}{args}{whr("Self: PartialEq")} {{}}\n'
        elif h == 'PartialOrd':
            s += f'impl{hdr_nodef} PartialOrd for {name}{args}{whr("Self: PartialEq")} {{ fn partial_cmp(&self, _o: &Self) -> Option<Ordering> {{ None }} }}\n'
        elif h == 'Clone':
            s += f'impl{hdr_nodef} Clone for {name}{args}{whr(None)} {{ fn clone(&self) -> Self {{ loop {{}} }} }}\n'
        elif h == 'Copy':
            s += f'impl{hdr_nodef} Copy for {name}{args}{whr("Self: Clone")} {{}}\n'
    return s


class Probe:
    """one native crate that evaluates `Type<Args>: Trait` questions with the REAL proc macro"""

    def __init__(self):
        self.decls = ''
        self.argtypes = {}
        self.qs = []     # (label, expr)

    def argtype(self, traits):
        key = tuple(sorted(close_super(traits)))
        if key not in self.argtypes:
            name = f'Arg{len(self.argtypes)}'
            self.argtypes[key] = name
            self.decls += arg_type_decl(name, key)
        return self.argtypes[key]

    def add_req(self, req, modname):
        body = 'use super::*;\n' + req.source('Ty') + hand_impls(req, 'Ty')
        self.decls += f'pub mod {modname} {{\n{body}}}\n'

    def ask(self, label, ty, trait_path):
        self.qs.append((label, f'impls!({ty}: {trait_path})'))

    def run(self, tag, nonce=0):
        d = os.path.join(WORK, f'probe_{tag}_{os.getpid()}')
        shutil.rmtree(d, ignore_errors=True)
        os.makedirs(os.path.join(d, 'src'))
        open(os.path.join(d, 'Cargo.toml'), 'w').write(f'[package]\nname = "probe"\nversion = "0.0.0"\nedition = "2021"\n[dependencies]\neduce = {{ path = "{REPO}" }}\n[workspace]\n')
        copy_lock(d)
        main = 'fn main() {\n' + ''.join(f'    println!("{{}}\\t{{}}", "{lab}", {ex});\n' for lab, ex in self.qs) + '}\n'
        open(os.path.join(d, 'src', 'main.rs'), 'w').write(f'// build {nonce}\n' + PROBE_PRELUDE + self.decls + main)
        rc, out = sh(['cargo', 'run', '--quiet', '--offline', '--target-dir', os.path.join(WORK, 'target-native')], cwd=d,
                     env={'RUSTFLAGS': '-Awarnings'}, timeout=1800)
        res = {}
        for line in out.splitlines():
            if '\t' in line:
                lab, v = line.split('\t', 1)
                res[lab] = v.strip() == 'true'
        ok = rc == 0 and len(res) == len(self.qs)
        return ok, res, out, d


def validate_rules(enc_params=('T', 'U')):
    """translator validation: every structural rule of holds() against rustc, on every run"""
    pr = Probe()
    checks = []
    ctors = [lambda t: t, OPT, ARR, BOX, PH, lambda t: PAIR(t, U8), lambda t: PAIR(t, t), PAREN, REF, UPH]
    names = ['T', 'Option<T>', '[T; 2]', 'Box<T>', 'PhantomData<T>', '(T, u8)', '(T, T)', '(T)', "&'static T", 'tags::PhantomData<T>']
    for tr in TRAITS:
        for has in (True, False):
            arg = pr.argtype([tr] if has else [])
            for ctor, nm in zip(ctors, names):
                term = ctor(P('T'))
                enc = Enc(['T'])
                f = enc.holds(term, tr)
                s = z3.Solver()
                for c in enc.universe():
                    s.add(c)
                for t2 in TRAITS:
                    s.add(enc.b[('T', t2)] == z3.BoolVal(t2 in close_super([tr]) if has else False))
                s.add(f)
                model_says = s.check() == z3.sat
                lab = f'rule:{nm}:{tr}:{int(has)}'
                pr.ask(lab, rust(term).replace('T', arg).replace("'a", "'static"), TPATH[tr])
                checks.append((lab, model_says))
    for tr in TRAITS:
        for nm, term in (('u8', U8), ('NoImpl', NOIMPL)):
            enc = Enc([])
            s = z3.Solver()
            s.add(enc.holds(term, tr))
            lab = f'rule:{nm}:{tr}'
            pr.ask(lab, rust(term), TPATH[tr])
            checks.append((lab, s.check() == z3.sat))
    ok, res, out, d = pr.run('rules')
    bad = []
    if not ok:
        return False, [f'probe crate failed: {out[-1500:]}'], len(checks)
    for lab, m in checks:
        if res.get(lab) != m:
            bad.append(f'{lab}: encoder says {m}, rustc says {res.get(lab)}')
    shutil.rmtree(d, ignore_errors=True)
    return not bad, bad, len(checks)


# ------------------------------------------------------------------ main
def model_to_inst(enc, model):
    inst = {}
    for p in enc.params:
        inst[p] = [t for t in ALLT if z3.is_true(model.eval(enc.b[(p, t)], model_completion=True))]
    return inst


def educed_impl_trait(impl):
    t = norm(impl.get('trait') or '')
    if t == '::core::convert::Into<u16>':
        return 'Into16'
    if t.startswith('::core::convert::Into<'):
        return 'Into'
    for k, p in TPATH.items():
        if t == norm(p):
            return k
    for k in ['Deref', 'DerefMut']:
        if t == f'::core::ops::{k}':
            return k
    return t


def main(prop, tier, seed, keep=False):
    t0 = time.time()
    corpus = c11_corpus(tier, seed) if prop == 'C11' else c12_corpus(tier, seed)
    exe, err = build_expander()
    if not exe:
        print('INCONCLUSIVE: tools/expander does not build from /repo/src/lib.rs with --cfg magiclen_educe_verif:\n' + err)
        return 2
    exp = expand(exe, corpus)
    ok_rules, bad_rules, nrules = validate_rules()
    inconclusive = []
    if not ok_rules:
        inconclusive += ['structural rule refuted by rustc: ' + b for b in bad_rules[:10]]
    obligations = discharged = 0
    queries = 0
    solver_s = 0.0
    sat_cases = []
    header_bad = []
    rejected = []
    samples = []
    nontrivial = 0
    for req in corpus:
        o = exp.get(req.rid)
        if o is None or 'impls' not in o:
            rejected.append((req, (o or {}).get('error') or ('panic' if (o or {}).get('panic') else 'no output')))
            continue
        educed = [t for t, _ in req.traits]
        enc = Enc(req.type_params())
        byt = {}
        for im in o['impls']:
            byt.setdefault(educed_impl_trait(im), []).append(im)
        # W of every emitted impl first (needed for Self: X atoms), in dependency order
        Wmap = {}
        for tr in ['PartialEq', 'Eq', 'Clone', 'Copy', 'PartialOrd', 'Ord', 'Debug', 'Hash', 'Default', 'Deref', 'DerefMut', 'Into']:
            if tr in byt and tr not in ('Into', 'Into16'):
                Wmap[tr] = W_formula(enc, req, byt[tr][0], Wmap, educed)
        req_nontrivial = True
        for tr, mode in req.traits:
            ims = byt.get(tr, [])
            if not ims:
                if tr in ('PartialOrd',) and 'Ord' in educed and 'PartialOrd' in byt:
                    pass
                header_bad.append((req, tr, 'no impl emitted'))
                continue
            for im in ims:
                okh, why = header_matches(req, im)
                obligations += 1
                if not okh:
                    header_bad.append((req, tr, why))
                    continue
                oko, why = own_where_present(req, im)
                if not oko:
                    header_bad.append((req, tr, 'the type\'s own where-clause is not repeated: ' + why))
                    continue
                okc, why = custom_predicates_present(req, mode, im)
                if not okc:
                    header_bad.append((req, tr, why))
                    continue
                okx, why = no_extra_predicates(req, tr, mode, im, educed)
                if not okx:
                    header_bad.append((req, tr, why))
                    continue
                W = W_formula(enc, req, im, Wmap, educed)
                Fm = F_formula(enc, req, tr, mode, educed, Wmap)
                s = z3.Solver()
                for c in enc.universe():
                    s.add(c)
                for c in header_constraints(enc, req):
                    s.add(c)      # well-formedness of Type<Args>: instantiations violating the type's own bounds do not exist
                s.add(z3.Xor(W, Fm))
                ts = time.time()
                r = s.check()
                solver_s += time.time() - ts
                queries += 1
                if r == z3.unsat:
                    discharged += 1
                    # vacuity witness: the impl is neither everywhere nor nowhere applicable unless F says so
                    s2 = z3.Solver()
                    for c in enc.universe():
                        s2.add(c)
                    s2.add(Fm)
                    if s2.check() != z3.sat:
                        req_nontrivial = False
                elif r == z3.sat:
                    inst = model_to_inst(enc, s.model())
                    sat_cases.append((req, tr, mode, inst, bool(z3.is_true(s.model().eval(Fm, model_completion=True)))))
                    req_nontrivial = False
                else:
                    inconclusive.append(f'{req.rid}/{tr}: z3 returned {r}')
                if len(samples) < 3 and r == z3.unsat and req.type_params():
                    samples.append(dict(request=req.source(with_derive=True), trait=tr, bound_mode=str(mode), emitted_where=[(w.get('lhs'), w.get('bounds')) for w in im['where']],
                                        W=str(z3.simplify(W))[:400], F=str(z3.simplify(Fm))[:400], verdict='W xor F unsat'))
        if req_nontrivial:
            nontrivial += 1
    # cross-solver diff once per run: re-ask a sample of queries to cvc5 through SMT-LIB
    cross = cross_check(corpus, exp)
    # end-to-end translator validation and replay of SAT models through rustc
    violations = []
    known = load_known(prop)
    pr = Probe()
    asked = []
    rng = random.Random(seed * 977 + 1)
    for i, (req, tr, mode, inst, f_says) in enumerate(sat_cases[:12]):
        pr.add_req(req, f'v{i}')
        if 'Marker' in req.header() or 'Marker' in (req.where or '') or 'userlib' in req.header():
            inst = {p: ts + ['Marker'] for p, ts in inst.items()}   # the header's own marker bounds are assumed by the query (well-formedness)
        args = {p: pr.argtype(ts) for p, ts in inst.items()}
        tpath = TPATH['IntoU8'] if tr == 'Into' else TPATH['IntoU16'] if tr == 'Into16' else (TPATH.get(tr) or f'::core::ops::{tr}')
        lab = f'sat:{i}'
        pr.ask(lab, f'v{i}::Ty{req.ty_args(args)}', tpath)
        asked.append((lab, i, f_says))
    # random instantiations of discharged requests: encoder (F) vs rustc
    val_pairs = []
    pool = [r for r in corpus if r.rid in exp and 'impls' in exp[r.rid] and r.type_params() and not any(isinstance(m, tuple) and 'Iterator' in m[1] for _, m in r.traits) and 'Iterator' not in (r.where or '')]
    for j, req in enumerate(rng.sample(pool, min(len(pool), 10 if tier == 'quick' else 40))):
        if any(s[0].rid == req.rid for s in sat_cases):
            continue
        pr.add_req(req, f'e{j}')
        educed = [t for t, _ in req.traits]
        for tr, mode in req.traits:
            if tr in ('Deref', 'DerefMut'):
                continue
            inst = {p: [t for t in ALLT if rng.random() < 0.5] for p in req.type_params()}
            if 'Marker' in req.header() or 'Marker' in (req.where or '') or 'userlib' in req.header():
                inst = {p: ts + ['Marker'] for p, ts in inst.items()}
            # the instantiated type must be well-formed: satisfy the type's own inline bounds
            for k_, n_, b_, d_ in req.params:
                if k_ == 'type' and b_:
                    for part in b_.split('+'):
                        tk = trait_key(part)
                        if tk:
                            inst[n_] = inst[n_] + [tk]
            inst = {p: sorted(close_super(ts)) for p, ts in inst.items()}
            args = {p: pr.argtype(ts) for p, ts in inst.items()}
            lab = f'val:{j}:{tr}'
            tpath = TPATH['IntoU8'] if tr == 'Into' else TPATH['IntoU16'] if tr == 'Into16' else TPATH[tr]
            pr.ask(lab, f'e{j}::Ty{req.ty_args(args)}', tpath)
            val_pairs.append((lab, req, tr, mode, inst))
    validated = 0
    if pr.qs:
        okp, res, out, pd = pr.run(prop.lower())
        if not okp and asked:
            # the probe does not build: find the SAT cases whose expansion itself is rejected by rustc (an impl whose
            # where-clause is weaker than its body or its supertraits need): each is built alone
            shutil.rmtree(pd, ignore_errors=True)
            still = []
            for lab, i, f_says in asked:
                req, tr, mode, inst, _ = sat_cases[i]
                one = Probe()
                one.add_req(req, 'v0')
                one.qs.append(('builds', 'true'))
                ok1, res1, out1, pd1 = one.run(f'{prop.lower()}_one{i}')
                if not ok1:
                    rd = os.path.join(VERIF, 'replays', prop, f'{req.rid}_{tr}_compile')
                    shutil.rmtree(rd, ignore_errors=True)
                    os.makedirs(os.path.dirname(rd), exist_ok=True)
                    shutil.copytree(pd1, rd)
                    errs = [l for l in out1.splitlines() if l.startswith('error')][:3]
                    open(os.path.join(rd, 'REPLAY.md'), 'w').write(f'property {prop}\nrequest:\n{req.source()}\nthe solver found W != F for impl {tr} (instantiation {inst}); `cargo build` of this crate fails: the emitted impl is rejected by rustc\n\n' + out1[-2500:])
                    violations.append(dict(config=f'{req.rid} {tr} mode={mode}', what=f'emitted impl {tr} has a where-clause that differs from what the property names (solver model {inst}) and the expansion does not compile (compiler verdict): ' + '; '.join(errs), replay=rd))
                else:
                    still.append((lab, i, f_says))
                shutil.rmtree(pd1, ignore_errors=True)
            asked = still
            # rebuild the probe without the non-compiling requests
            bad_ids = {sat_cases[i][0].rid for (_, i, _) in []}
            pr2 = Probe()
            for lab, i, f_says in asked:
                req, tr, mode, inst, _ = sat_cases[i]
                pr2.add_req(req, f'v{i}')
                args = {p_: pr2.argtype(ts) for p_, ts in inst.items()}
                tpath = TPATH['IntoU8'] if tr == 'Into' else TPATH['IntoU16'] if tr == 'Into16' else (TPATH.get(tr) or f'::core::ops::{tr}')
                pr2.ask(lab, f'v{i}::Ty{req.ty_args(args)}', tpath)
            val_pairs = []
            if pr2.qs:
                okp, res, out, pd = pr2.run(prop.lower() + '_b')
            else:
                okp, res, out, pd = True, {}, '', None
        if not okp:
            inconclusive.append('probe crate for replay/validation failed to build or run: ' + out[-1200:])
        else:
            # the expansion order of several Into impls depends on std's per-process RandomState (C16), so the impl the
            # solver's model is about may be a different one in rustc's process: unconfirmed models are re-asked in fresh builds
            pending = [lab for lab, i, f_says in asked if res.get(lab) == f_says]
            for attempt in range(1, 5):
                if not pending:
                    break
                ok2, res2, out2, pd2 = (pr2 if 'pr2' in dir() and pr2.qs else pr).run(prop.lower() + '_retry', nonce=attempt)
                if ok2:
                    for lab in list(pending):
                        f_says = next(f for l, i, f in asked if l == lab)
                        if res2.get(lab) is not None and res2[lab] != f_says:
                            res[lab] = res2[lab]
                            pending.remove(lab)
                    if pending:
                        shutil.rmtree(pd2, ignore_errors=True)
                    else:
                        shutil.rmtree(pd, ignore_errors=True)
                        pd = pd2
                else:
                    break
            for lab, i, f_says in asked:
                req, tr, mode, inst, _ = sat_cases[i]
                rustc_says = res[lab]
                if rustc_says != f_says:
                    rd = os.path.join(VERIF, 'replays', prop, f'{req.rid}_{tr}')
                    shutil.rmtree(rd, ignore_errors=True)
                    os.makedirs(os.path.dirname(rd), exist_ok=True)
                    shutil.copytree(pd, rd)
                    open(os.path.join(rd, 'REPLAY.md'), 'w').write(
                        f'property {prop}\nrequest:\n{req.source()}\ntrait {tr}, bound mode {mode}\ninstantiation (argument type implements): {inst}\n'
                        f'the property says the impl {"applies" if f_says else "does not apply"}; rustc says it {"applies" if rustc_says else "does not apply"} (line "{lab}" of `cargo run`)\n')
                    violations.append(dict(config=f'{req.rid} {tr} mode={mode}', what=f'impl {tr} applies to a different set of instantiations than the property names; counterexample {inst}: property {f_says}, rustc {rustc_says}', replay=rd))
                else:
                    inconclusive.append(f'{req.rid}/{tr}: solver model {inst} not confirmed by rustc (encoder imprecision)')
            for lab, req, tr, mode, inst in val_pairs:
                enc = Enc(req.type_params())
                Fm = F_formula(enc, req, tr, mode, [t for t, _ in req.traits], {})
                s = z3.Solver()
                for p in req.type_params():
                    for t in ALLT:
                        s.add(enc.b[(p, t)] == z3.BoolVal(t in inst[p]))
                # Self: X atoms of hand-written / educed partners hold for these requests when their own F holds; keep only closed cases
                s.add(Fm)
                if enc.opaque:
                    continue
                f_says = s.check() == z3.sat
                validated += 1
                if res.get(lab) != f_says:
                    inconclusive.append(f'validation: {req.rid}/{tr} {inst}: encoder F says {f_says}, rustc says {res.get(lab)}\n{req.source()}')
            if pd:
                shutil.rmtree(pd, ignore_errors=True)
    for req, tr, why in header_bad:
        rd = os.path.join(VERIF, 'replays', prop, f'{req.rid}_{tr}_header')
        os.makedirs(rd, exist_ok=True)
        open(os.path.join(rd, 'REPLAY.md'), 'w').write(f'request:\n{req.source()}\nimpl {tr}: {why}\nexpansion: echo the request into tools/expander (target-expander/release/expand)\n')
        violations.append(dict(config=f'{req.rid} {tr}', what=f'impl header does not reproduce the type\'s generics: {why}', replay=rd))
    for req, why in rejected:
        rd = os.path.join(VERIF, 'replays', prop, f'{req.rid}_rejected')
        os.makedirs(rd, exist_ok=True)
        open(os.path.join(rd, 'REPLAY.md'), 'w').write(f'request:\n{req.source()}\nexpander: {why}\n')
        violations.append(dict(config=req.rid, what=f'documented request refused or not expandable: {why}', replay=rd))
    ev = dict(property_id=prop, tier=tier, seed=seed, level='model_checking', wall_s=round(time.time() - t0, 2), violations=len(violations),
              assumptions=['structural rules for u8, NoImpl, Option<_>, [_; 2], Box<_>, PhantomData<_>, (_, _) x 9 traits: validated against rustc on this run (%d probes)' % nrules,
                           'predicates outside the grammar (associated-type bounds, lifetime bounds) are opaque atoms keyed by their text',
                           'universe: argument types closed under Copy=>Clone, Eq=>PartialEq, PartialOrd=>PartialEq, Ord=>Eq+PartialOrd',
                           'only the structure of the emitted impls is read from the in-process expansion (never printed tokens)'],
              coverage=dict(evaluations=obligations, distinct_nontrivial=nontrivial, obligations=obligations, discharged=discharged, queries_z3=queries, solver_time_s=round(solver_s, 3),
                            requests=len(corpus), cross_solver=cross, rule='one request = generic type definition x trait(s) x delegation-deciding attributes / bound mode; one obligation per emitted impl: (W xor F) unsat over all instantiations; '
                            'non-trivial request = all its obligations discharged and F satisfiable (the impl is applicable to some instantiation)',
                            samples=samples, rustc_rule_probes=nrules, rustc_validated_instantiations=validated, sat_models_replayed=len(asked), inconclusive=inconclusive[:10],
                            functions_encoded=['where-clause / generics of every impl emitted by trait_meta_handler of each trait (common/bound.rs, common/where_predicates_bool.rs)'],
                            bounds=dict(type_params='<= 3', constructors=['T', 'u8', 'NoImpl', 'Option<_>', '[_; 2]', 'Box<_>', 'PhantomData<_>', '(_, _)'], outside=['type constructors not in the grammar', 'higher-ranked and associated-type bounds (opaque)']),
                            checker_cmd='z3 (python API) on W xor F per impl; cvc5 on a sample; rustc (impls! trick) for rule validation and model replay', exhaustive=False))
    os.makedirs(os.path.join(VERIF, 'evidence'), exist_ok=True)
    json.dump(ev, open(os.path.join(VERIF, 'evidence', prop + '.json'), 'w'), indent=1)
    kept = []
    for v in violations:
        k = next((k for k in known if k['key'] in v['config'] or k['key'] in v['what']), None)
        if k:
            print(f"KNOWN-FINDING: property={prop} {k['what']} [{k['key']}]")
        else:
            kept.append(v)
    for v in kept[:6]:
        print(f"VIOLATION property={prop} replay={v['replay']}\n  config: {v['config']}\n  what: {v['what'][:400]}")
    if kept:
        return 1
    if inconclusive:
        for s in inconclusive[:12]:
            print('INCONCLUSIVE: ' + s[:700])
        return 2
    print(f'OK property={prop}: {discharged}/{obligations} impl obligations (W xor F unsat) over {len(corpus)} requests; {nrules} structural rules and {validated} random instantiations confirmed by rustc; cvc5 agrees on {cross.get("agree", 0)}/{cross.get("asked", 0)}')
    return 0


def cross_check(corpus, exp, limit=25):
    """diff two solvers once per run on a sample of the same queries, through SMT-LIB"""
    asked = agree = 0
    errs = []
    for req in corpus[::max(1, len(corpus) // limit)][:limit]:
        o = exp.get(req.rid)
        if not o or 'impls' not in o or not o['impls']:
            continue
        educed = [t for t, _ in req.traits]
        enc = Enc(req.type_params())
        im = o['impls'][0]
        tr = educed_impl_trait(im)
        mode = dict(req.traits).get(tr)
        if tr not in dict(req.traits):
            continue
        W = W_formula(enc, req, im, {}, educed)
        Fm = F_formula(enc, req, tr, mode, educed, {})
        s = z3.Solver()
        for c in enc.universe():
            s.add(c)
        s.add(z3.Xor(W, Fm))
        r1 = str(s.check())
        smt = '(set-logic QF_UF)\n' + s.to_smt2()
        try:
            p = subprocess.run(['cvc5', '--lang', 'smt2'], input=smt, stdout=subprocess.PIPE, stderr=subprocess.STDOUT, text=True, timeout=60)
            out = p.stdout.strip().splitlines()
            r2 = out[0] if out else ''
            if '(error' in p.stdout:
                errs.append(p.stdout[:200])
                continue
        except Exception as e:
            errs.append(str(e))
            continue
        asked += 1
        if r1 == r2:
            agree += 1
    return dict(asked=asked, agree=agree, errors=errs[:3])
