"""Shape enumeration shared by the E1 generators.

A *shape* is a list of variants; each variant is (kind, [field-code, ...]).  Field codes are
property-specific single letters (e.g. C02: p=plain u8, q=plain Mod4, i=ignored, m=method).
"""
import itertools
import random


def field_lists(codes, maxlen, minlen=1):
    for k in range(minlen, maxlen + 1):
        for tup in itertools.product(codes, repeat=k):
            yield list(tup)


def struct_shapes(codes, maxlen=3):
    out = [('struct', [('unit', [])])]
    for kind in ('named', 'tuple'):
        for fl in field_lists(codes, maxlen):
            out.append(('struct', [(kind, fl)]))
    return out


def enum_shapes_thorough(codes, maxlen=3):
    """Every (kind, field list) placed at each of the three variant positions, next to two
    companions that rotate through the other kinds (so same-variant and cross-variant arms of
    every handler branch are reached at first, middle and last position)."""
    out = []
    variants = [(k, fl) for k in ('named', 'tuple') for fl in field_lists(codes, maxlen)]
    comp = [('unit', []), ('tuple', [codes[0]]), ('named', [codes[0], codes[-1]]), ('tuple', [codes[-1], codes[0]])]
    for n, v in enumerate(variants):
        pos = n % 3
        c1 = comp[n % len(comp)]
        c2 = comp[(n // 3 + 1) % len(comp)]
        vs = [c1, c2]
        vs.insert(pos, v)
        out.append(('enum', vs))
    # small enums
    out.append(('enum', [('unit', [])]))
    out.append(('enum', [('unit', []), ('unit', [])]))
    out.append(('enum', [('unit', []), ('unit', []), ('unit', [])]))
    for v in variants[:: max(1, len(variants) // 12)]:
        out.append(('enum', [v]))
        out.append(('enum', [v, ('unit', [])]))
    return out


def four_variant_enums(codes):
    """thorough only: four variants, each kind at each position, field lists rotating through the codes"""
    out = []
    n = len(codes)
    kinds = ['named', 'tuple', 'unit', 'tuple']
    for r in range(4 * n):
        vs = []
        for k in range(4):
            kind = kinds[(k + r) % 4]
            fl = [] if kind == 'unit' else [codes[(r + k + j) % n] for j in range(1 + (r + k) % 3)]
            vs.append((kind, fl))
        out.append(('enum', vs))
    return out


def big_enum(traits, n=260, extra_attrs=''):
    """a fieldless enum with more than 256 variants plus one payload variant at the end (a tag kept in a u8 wraps at 256):
    -> (declaration, anyv(), vidx()) source text"""
    names = [f'V{i}' for i in range(n)]
    decl = f'#[derive(Educe)]\n#[educe({traits})]\n{extra_attrs}pub enum Big {{\n    ' + ', '.join(names) + f',\n    Last(u8),\n}}\n'
    arms = ''.join(f'        {i} => Big::{nm},\n' for i, nm in enumerate(names))
    anyv = f'pub fn anyv() -> Big {{\n    let s: u16 = kani::any();\n    kani::assume(s <= {n});\n    match s {{\n{arms}        _ => Big::Last(kani::any()),\n    }}\n}}\n'
    varms = ''.join(f'        Big::{nm} => {i},\n' for i, nm in enumerate(names))
    vidx = f'pub fn vidx(v: &Big) -> usize {{\n    match v {{\n{varms}        Big::Last(..) => {n},\n    }}\n}}\n'
    return decl, anyv, vidx


def quick_core(codes, maxlen=3):
    """Pairwise-style core: every code at first / middle / last position of a 3-field named and
    tuple struct and of each enum variant kind, plus unit/single shapes."""
    out = [('struct', [('unit', [])]), ('enum', [('unit', [])]), ('enum', [('unit', []), ('unit', [])])]
    n = len(codes)
    triples = []
    for a in range(n):
        for pos in range(3):
            t = [codes[(a + 1) % n], codes[(a + 2) % n], codes[(a + 3) % n]]
            t[pos] = codes[a]
            triples.append(t)
    # all ordered pairs of codes adjacent
    for a in codes:
        for b in codes:
            triples.append([a, b, codes[0]])
    seen = []
    for t in triples:
        if t not in seen:
            seen.append(t)
    for j, t in enumerate(seen):
        kind = ('named', 'tuple')[j % 2]
        other = ('tuple', 'named')[j % 2]
        # every triple as a struct of one kind and as an enum variant of the other kind
        out.append(('struct', [(kind, t)]))
        if j % 2 == 0 or j % 3 == 0:
            out.append(('struct', [(other, t)]))
        comp = [('unit', []), (kind, [t[0], t[2]])]
        comp.insert(j % 3, (other, t))
        out.append(('enum', comp))
    # degenerate shapes: zero-field tuple / named structs and variants, single-variant enums
    out.append(('struct', [('tuple', [])]))
    out.append(('struct', [('named', [])]))
    out.append(('enum', [('tuple', []), ('named', []), ('unit', [])]))
    out.append(('enum', [('named', [codes[0], codes[-1]])]))
    out.append(('enum', [('tuple', [codes[-1]]), ('tuple', [])]))
    for a in codes:
        out.append(('struct', [('tuple', [a])]))
        out.append(('struct', [('named', [a, codes[0]])]))
        out.append(('enum', [('named', [a]), ('tuple', [codes[0], a])]))
    return out


def seeded_extra(codes, seed, count, maxlen=3, maxvars=3):
    rng = random.Random(seed * 7919 + 13)
    out = []
    for _ in range(count):
        if rng.random() < 0.4:
            kind = rng.choice(['named', 'tuple'])
            out.append(('struct', [(kind, [rng.choice(codes) for _ in range(rng.randint(1, maxlen))])]))
        else:
            vs = []
            for _ in range(rng.randint(1, maxvars)):
                kind = rng.choice(['unit', 'named', 'tuple'])
                vs.append((kind, [] if kind == 'unit' else [rng.choice(codes) for _ in range(rng.randint(1, maxlen))]))
            out.append(('enum', vs))
    return out


def shape_id(shape):
    k, vs = shape
    def one(v):
        kind, fl = v
        if kind == 'unit':
            return 'U'
        return ('N{' if kind == 'named' else 'T(') + ''.join(fl) + ('}' if kind == 'named' else ')')
    return k + '[' + ';'.join(one(v) for v in vs) + ']'


VNAMES = ['Alpha', 'Beta', 'Gamma', 'Delta']
# deliberately not in alphabetical order (a handler that orders fields by name must show), 13 for the wide shapes
FNAMES = ['y', 'x', 'z', 'w', 'k', 'j', 'v', 'u', 't', 's', 'r', 'q', 'o']


def fname(i, k, n):
    """name of field i of the k-th variant, which has n fields: the first n names rotated by the variant index, so that across the
    named variants of one enum the same position carries different names and the same name sits at different positions"""
    return FNAMES[(i + k) % n] if n else FNAMES[i]


def ignore_run_shapes(P, Q=None):
    """runs of two and three adjacent ignored fields before / between compared ones, in every shape kind (positional bookkeeping that
    counts `an ignored field was seen` instead of how many)"""
    Q = Q or P
    return [('enum', [('tuple', ['i', 'i', P]), ('unit', [])]),
            ('enum', [('named', ['i', 'i', P]), ('tuple', [P, 'i', 'i', Q])]),
            ('struct', [('tuple', [P, 'i', 'i', Q])]),
            ('struct', [('named', ['i', 'i', 'i', P])]),
            ('enum', [('tuple', ['i', 'i', 'i', Q, P])])]


WIDE = 13    # positions >= 10 sort before 2 as strings
