"""C04 — enum variants order by declared discriminant, never by memory layout."""
import itertools
import random
from .model import F, V, T, render_type, pattern, any_fn
from .runner import Harness, Module

# payload code -> list of field types
PAYLOADS = {
    'none': None,
    'unit': ['()'],
    'u8': ['u8'],
    'bool': ['bool'],
    'char': ['char'],
    'ref': ["&'static u8"],
    'nz': ['core::num::NonZeroU8'],
    'opt': ['Option<u8>'],
    'inner': ['Inner'],
    'u32': ['u32'],
    'pair': ['u8', 'u32'],
    'tup': ['(u8, u32)'],
    'u8x2n': ['u8', 'u8'],   # named
    'u64': ['u64'],
    # variants without any compared field: all ignored, `V()`, `V {}`
    'ign': ['u8'],
    'empt': [],
    'empn': [],
}
NOCMP = ('ign', 'empt', 'empn')

INNER = '''pub const KC: u8 = 7;
pub const KI: i32 = -7;
#[derive(Clone, Copy, Debug, PartialEq, Eq, PartialOrd, Ord)]
pub enum Inner { P, Q, R }
impl Sym for Inner {
    fn sym() -> Self { match kani::any::<u8>() % 3 { 0 => Inner::P, 1 => Inner::Q, _ => Inner::R } }
}
'''

FUNCTIONS = ['<E as ::core::cmp::Ord>::cmp (educe expansion, enum)', '<E as ::core::cmp::PartialOrd>::partial_cmp (educe expansion, enum; both the Ord-emitted and the stand-alone handler)']

VN = ['Va', 'Vb', 'Vc', 'Vd', 'Ve', 'Vf']


def discs_of(dspec, n):
    """dspec: list of explicit values, (expression, value) pairs or None per variant -> effective discriminants"""
    out = []
    cur = -1
    for i in range(n):
        d = dspec[i] if dspec and i < len(dspec) else None
        if isinstance(d, tuple):
            d = d[1]
        cur = d if d is not None else cur + 1
        out.append(cur)
    return out


def disc_text(d):
    return d[0] if isinstance(d, tuple) else d


def build(payloads, repr_, dspec, traits):
    variants = []
    carrier = 'Ord' if 'Ord' in traits else 'PartialOrd'
    for i, pc in enumerate(payloads):
        tys = PAYLOADS[pc]
        d = dspec[i] if dspec and i < len(dspec) else None
        if tys is None:
            variants.append(V(VN[i], 'unit', [], disc=disc_text(d)))
        elif pc == 'ign':
            f = F('u8', **{carrier: {'ignore': True}})
            f.code = 'i'
            variants.append(V(VN[i], 'tuple', [f], disc=disc_text(d)))
        elif pc == 'empn':
            variants.append(V(VN[i], 'named', [], disc=disc_text(d)))
        elif pc == 'u8x2n':
            variants.append(V(VN[i], 'named', [F(tys[0], 'x'), F(tys[1], 'y')], disc=disc_text(d)))
        else:
            variants.append(V(VN[i], 'tuple', [F(ty) for ty in tys], disc=disc_text(d)))
    tr = [(x, {}) for x in traits]
    return T('enum', 'En', variants, tr, repr=repr_)


def oracle(t, discs):
    arms = ''
    for v in t.variants:
        terms = [f'a{i}.cmp(b{i})' for i, f in enumerate(v.fields) if getattr(f, 'code', 'p') != 'i']
        body = 'Ordering::Equal'
        if terms:
            body = terms[0] + ''.join(f'.then_with(|| {x})' for x in terms[1:])
        arms += f'        ({pattern(t, v, "a")}, {pattern(t, v, "b")}) => {body},\n'
    if len(t.variants) > 1:
        arms += '        _ => disc(a).cmp(&disc(b)),\n'
    darms = ''
    for v, d in zip(t.variants, discs):
        p = f'En::{v.name}' + {'unit': '', 'tuple': '(..)', 'named': ' { .. }'}[v.kind]
        darms += f'        {p} => {d}i128,\n'
    s = f'pub fn disc(v: &En) -> i128 {{\n    match v {{\n{darms}    }}\n}}\n'
    s += f'pub fn oracle_cmp(a: &En, b: &En) -> Ordering {{\n    match (a, b) {{\n{arms}    }}\n}}\n'
    return s


def classes_for(payloads, repr_, dspec):
    """role keys describing the layout class (used only to key known findings)"""
    ks = []
    n = len(payloads)
    if n == 1:
        ks.append('c04:single-variant')
    return ks


def emit(modname, payloads, repr_, dspec, mode):
    """mode: 'ord' (Ord + PartialOrd educed), 'pord' (stand-alone PartialOrd), 'ordonly' (Ord educed, PartialOrd by hand)"""
    traits = {'ord': ['PartialOrd', 'Ord'], 'pord': ['PartialOrd'], 'ordonly': ['Ord']}[mode]
    t = build(payloads, repr_, dspec, traits)
    discs = discs_of(dspec, len(payloads))
    t.extra_attrs = {'ord': '#[derive(PartialEq, Eq)]\n', 'pord': '#[derive(PartialEq)]\n', 'ordonly': '#[derive(PartialEq, Eq)]\n'}[mode]
    body = INNER + render_type(t) + any_fn(t) + oracle(t, discs)
    if mode == 'ordonly':
        body += 'impl PartialOrd for En { fn partial_cmp(&self, o: &Self) -> Option<Ordering> { Some(Ord::cmp(self, o)) } }\n'
    body += '#[repr(C)]\npub struct Wrap { pub e: En, pub tail: [u8; 4] }\n'
    multi = len(payloads) > 1
    has_vals = any(PAYLOADS[p] not in (None, ['()'], []) and p != 'ign' for p in payloads)
    covers = ['oracle equal']
    if multi or has_vals:
        covers += ['oracle less', 'oracle greater']
    if multi:
        covers.append('different variants')
    if mode in ('ord', 'ordonly'):
        call = 'let r = Ord::cmp(&wa.e, &wb.e);\n    assert!(PartialOrd::partial_cmp(&wa.e, &wb.e) == Some(r), "partial_cmp != Some(cmp)");'
    else:
        call = 'let r = match PartialOrd::partial_cmp(&wa.e, &wb.e) { Some(r) => r, None => { assert!(false, "partial_cmp returned None for comparable payloads"); Ordering::Equal } };'
    h = Harness('h_order', covers=covers)
    body += h.attrs() + f'''pub fn h_order() {{
    let a = anyv();
    let b = anyv();
    let o = oracle_cmp(&a, &b);
    kani::cover!(o == Ordering::Equal, "oracle equal");
    kani::cover!(o == Ordering::Less, "oracle less");
    kani::cover!(o == Ordering::Greater, "oracle greater");
    kani::cover!(disc(&a) != disc(&b), "different variants");
    // arbitrary, different neighbour bytes on the two sides
    let wa = Wrap {{ e: a, tail: Sym::sym() }};
    let wb = Wrap {{ e: b, tail: Sym::sym() }};
    {call}
    assert!(r == o, "enum ordering differs from declared-discriminant oracle");
    assert!(PartialOrd::partial_cmp(&wa.e, &wa.e) == Some(oracle_cmp(&wa.e, &wa.e)), "comparison with the same object differs from the oracle");
}}
'''
    cfgid = f'enum[{",".join(payloads)}]/repr={repr_}/disc={[disc_text(d) if d is not None else None for d in dspec] if dspec else None}/{mode}'
    sample = dict(type_definition=render_type(t), discriminants=discs)
    return Module(modname, cfgid, body, [h], sample=sample, classes=classes_for(payloads, repr_, dspec), functions=FUNCTIONS)


INT_REPRS = ['u8', 'i8', 'u16', 'i16', 'i32', 'u32', 'i64', 'u64', 'isize', 'usize']


def fits(repr_, vals):
    rng = {'u8': (0, 255), 'i8': (-128, 127), 'u16': (0, 65535), 'i16': (-32768, 32767), 'i32': (-2**31, 2**31 - 1),
           'u32': (0, 2**32 - 1), 'i64': (-2**63, 2**63 - 1), 'u64': (0, 2**64 - 1), 'isize': (-2**63, 2**63 - 1),
           'usize': (0, 2**64 - 1), None: (-2**63, 2**63 - 1), 'C': (-2**31, 2**31 - 1), 'i128': (-2**127, 2**127 - 1), 'u128': (0, 2**127 - 1)}
    base = repr_.split(',')[-1].strip() if repr_ else None
    lo, hi = rng.get(base, rng[None])
    return all(lo <= v <= hi for v in vals)


DSETS = [
    None,
    [1, 300, -5],
    [0, 200],
    [-128, 127],
    [-129, 0],
    [255, 0],
    [256, 1],
    [65535, 2],
    [5, None, 2],
    [200, 3],
    [200, None, 7],
    [9223372036854775807, -9223372036854775808],
    [18446744073709551615, 0],
    [2, 1, 0],
    [-1, None, None],
    [127, -128, 0],
    [128, 127],
    [32767, -32768, 40000],
    [4294967295, 0],
    [2147483648, -1],
    [10, None, 3, None, 5],
    [5, 1, None, 3],
    [None, 7, None, 2, None],
    [-3, None, -9, None],
    # leading implicit variants followed by the explicit value they lead up to (an off-by-one in the implicit count collides)
    # an implicit run that crosses a signed-type boundary in the middle of the enum, followed by a lower explicit value
    [127, None, 0],
    [32767, None, -1],
    [2147483647, None, 5],
    [-129, None, 126, None, 0],
    [None, 1],
    [None, None, 2, None],
    [None, 1, None, None],
]


# constant-expression discriminants (only legal / accepted under an integer repr): operators binding
# looser and tighter than `+`, constants, byte literals, followed by implicit variants
EXPR_DSETS = [
    ('u8', [('1 << 4', 16), None, ('20', 20)]),
    ('u8', [('KC', 7), None, ("b'a'", 97)]),
    ('u8', [('0x10 | 0x03', 19), None, ('18', 18)]),
    ('u8', [('2 * 3', 6), None, ('1', 1)]),
    ('u8', [('KC + 1', 8), None, None]),
    ('i32', [('KI', -7), None, ('-(2)', -2)]),
    ('i32', [('6 & 3', 2), None, ('1 ^ 1', 0)]),
    ('u8', [('48 >> 1', 24), None, ('23', 23)]),
    ('i32', [('-KI', 7), None, ('KI - 1', -8)]),
]


def expr_configs():
    out = []
    for r, ds in EXPR_DSETS:
        n = len(ds)
        out.append((['none'] * n, r, ds))
        out.append((['u8', 'none', 'bool'][:n], r, ds))
        out.append((['none', 'u8x2n', 'opt'][:n], r, ds))
    return out


def all_configs():
    """the whole grammar (thorough)"""
    out = expr_configs()
    pay = list(PAYLOADS.keys())
    # 1. layout classes without explicit discriminants: every payload combination up to 2 variants,
    #    a structured set of 3-variant ones, with every repr
    reprs = [None, 'u8', 'i8', 'u16', 'i32', 'i64', 'isize', 'C', 'C, u8']
    combos = [[p] for p in pay] + [list(c) for c in itertools.product(pay, repeat=2)]
    for i, p in enumerate(pay):
        combos.append([p, pay[(i + 3) % len(pay)], 'none'])
        combos.append(['none', p, pay[(i + 5) % len(pay)]])
        combos.append([pay[(i + 7) % len(pay)], 'none', p])
    for n, c in enumerate(combos):
        for r in reprs:
            if r == 'C, u8' and all(PAYLOADS[x] is None for x in c):
                continue   # rustc rejects repr(C, u8) on a fieldless enum (E0566): not a derive request
            if (n + reprs.index(r)) % 3 != 0 and r is not None and len(c) > 1:
                continue   # thin the repr dimension for multi-variant combos (every combo gets None + a third of the reprs)
            out.append((c, r, None))
    # 2. explicit discriminants: fieldless without repr / with int reprs; with payloads under int reprs
    for ds in DSETS[1:]:
        n = len(ds)
        vals = discs_of(ds, n)
        for r in [None, 'C'] + INT_REPRS:
            if not fits(r, vals):
                continue
            if len(set(vals)) != len(vals):
                continue
            out.append((['none'] * n, r, ds))
            if r in INT_REPRS:
                out.append(((['u8', 'none', 'bool'] * 2)[:n], r, ds))
                out.append(((['opt', 'pair', 'none'] * 2)[:n], r, ds))
                out.append(((['none', 'inner', 'nz'] * 2)[:n], r, ds))
    return out


def quick_configs(seed):
    allc = all_configs()
    core = []
    want = [(['u8'], None, None), (['none'], None, None), (['none', 'bool'], None, None), (['bool', 'none'], None, None),
            (['none', 'none'], None, [0, 200]), (['none', 'none', 'none'], None, [1, 300, -5]), (['none', 'none'], None, [-129, 0]),
            (['none', 'none'], None, [255, 0]), (['none', 'none'], 'u8', [255, 0]), (['none', 'none'], 'u8', [0, 200]),
            (['none', 'none'], 'i8', [-128, 127]), (['none', 'none'], None, [-128, 127]), (['none', 'none'], None, [128, 127]),
            (['none', 'none'], 'i64', [9223372036854775807, -9223372036854775808]), (['none', 'none'], 'u64', [18446744073709551615, 0]),
            (['none', 'none', 'none'], None, [5, None, 2]), (['u8', 'none'], 'u8', [200, 3]), (['opt', 'pair', 'none'], 'i16', [1, 300, -5]),
            (['opt'], None, None), (['ref'], None, None), (['ref', 'none'], None, None), (['nz', 'none'], None, None), (['char', 'none'], None, None),
            (['inner', 'none'], None, None), (['inner'], None, None), (['unit'], None, None), (['unit', 'unit'], None, None), (['u32', 'u8'], None, None),
            (['pair', 'none', 'bool'], None, None), (['tup', 'u8x2n'], None, None), (['u8x2n'], None, None), (['u64', 'none'], None, None),
            (['none', 'none'], 'C', None), (['u8', 'none'], 'C', None), (['u8', 'u32'], 'C, u8', None), (['bool', 'none'], 'u16', None),
            (['none', 'none', 'none'], 'isize', [-1, None, None]), (['none', 'none'], None, [256, 1]), (['none', 'none'], None, [65535, 2]),
            (['none', 'none', 'none'], None, [32767, -32768, 40000]), (['none'] * 5, None, [10, None, 3, None, 5]), (['none'] * 4, None, [5, 1, None, 3]),
            (['u8', 'none', 'bool', 'none', 'u8'], 'i16', [None, 7, None, 2, None]), (['none'] * 4, 'i8', [-3, None, -9, None]), (['none', 'none'], 'u32', [4294967295, 0]), (['none', 'none'], None, [2147483648, -1]),
            (['none', 'none'], 'i128', [2**127 - 1, -2**127]), (['u8', 'none', 'bool'], 'u128', [2**100, 5, None]), (['none', 'u8'], 'i128', [-2**127, None]),
            (['none'] * 3, None, [127, None, 0]), (['none'] * 3, None, [32767, None, -1]), (['none'] * 3, None, [2147483647, None, 5]), (['none'] * 5, None, [-129, None, 126, None, 0]),
            (['none', 'none'], None, [None, 1]), (['u8', 'none', 'none', 'bool'], 'u8', [None, None, 2, None]), (['none'] * 4, None, [None, 1, None, None]),
            (['none', 'none', 'none'], ' ', None), (['u8', 'none'], ' ', None),      # `#[repr( )]`: an empty list selects the default representation
            (['ign', 'none', 'u8'], None, None), (['none', 'empt', 'none'], None, None), (['empn', 'ign', 'none'], None, None), (['ign', 'none', 'none'], 'u8', [5, None, None]),
            (['empt', 'empn', 'u8'], 'i16', [3, None, None]), (['u8', 'ign', 'empt', 'none'], None, None),
            (['opt', 'opt'], None, None), (['bool', 'bool'], None, None), (['char', 'char', 'none'], None, None), (['none', 'none', 'none'], None, [2, 1, 0])]
    for w in want:
        core.append(w)
    ec = expr_configs()
    core += ec[::3] + ec[1::6]
    rng = random.Random(seed * 104729 + 5)
    extra = rng.sample(allc, 14)
    return core + extra


def gen(tier, seed):
    cfgs = quick_configs(seed) if tier == 'quick' else all_configs()
    mods = []
    seen = set()
    n = 0
    for (p, r, d) in cfgs:
        modes = ['ord', 'pord'] if tier != 'quick' else [['ord', 'pord', 'ordonly'][n % 3], ['pord', 'ord', 'ord'][n % 3]]
        for mode in dict.fromkeys(modes):
            key = (tuple(p), r, str(d), mode)
            if key in seen:
                continue
            seen.add(key)
            mods.append(emit(f'm{n:04d}', p, r, d, mode))
            n += 1
    # more than 256 variants: declaration order must hold beyond a one-byte tag
    from . import shapes as S
    for mode, traits, extra, call in [('ord', 'PartialOrd, Ord', '#[derive(PartialEq, Eq)]\n', 'Ord::cmp(&a, &b)'),
                                      ('pord', 'PartialOrd', '#[derive(PartialEq)]\n', 'PartialOrd::partial_cmp(&a, &b).unwrap()')]:
        decl, anyv, vidx = S.big_enum(traits, extra_attrs=extra)
        h = Harness('h_big', covers=['less', 'greater', 'equal'])
        body = decl + anyv + vidx + h.attrs() + f'''pub fn h_big() {{
    let a = anyv();
    let b = anyv();
    let o = match (&a, &b) {{ (Big::Last(x), Big::Last(y)) => x.cmp(y), _ => vidx(&a).cmp(&vidx(&b)) }};
    kani::cover!(o == Ordering::Less, "less");
    kani::cover!(o == Ordering::Greater, "greater");
    kani::cover!(o == Ordering::Equal, "equal");
    assert!({call} == o, "ordering of a 261-variant enum differs from declaration order");
}}
'''
        mods.append(Module(f'm{n:04d}', f'enum with 261 variants (V0..V259, Last(u8))/{mode}', body, [h], sample=dict(type_definition='enum Big { V0, .., V259, Last(u8) }'), functions=FUNCTIONS))
        n += 1
    return mods


RULE = ('one config = one enum definition (payload types x repr x explicit discriminants) x deriving mode {Ord+PartialOrd educed, stand-alone PartialOrd, Ord educed with hand-written PartialOrd}; '
        'inside a config both values (variant and payload) and the 4 neighbour bytes behind each value are arbitrary; CBMC pointer checks are on, so an out-of-bounds tag read fails even when the answer is right. '
        'Non-trivial = harness passed and the Less/Equal/Greater/different-variant witnesses that the config admits were all SATISFIED.')
BOUNDS = dict(max_variants='3 (5 for the non-ascending explicit/implicit discriminant sets)', payload_types=sorted(PAYLOADS.keys()), reprs=['none', 'u8', 'i8', 'u16', 'i16', 'i32', 'u32', 'i64', 'u64', 'isize', 'usize', 'i128', 'u128 (values up to 2^127-1)', 'C', 'C, u8'],
              discriminant_sets=[str(d) for d in DSETS], neighbour_bytes=4,
              constant_expression_discriminants=[str(x) for x in EXPR_DSETS],
              outside=['payload types outside the list', 'repr(packed)/repr(align)', 'targets other than x86_64', 'discriminant expressions outside the listed ones'])
ASSUME = ['Kani 0.68 / CBMC 6.11 / CaDiCaL; rustc nightly-2026-08-21 layout for x86_64 (niche / tag-less / narrow-tag enums laid out as rustc lays them out)',
          "char payloads are drawn from three 256-value planes (ASCII, 0xD7xx, 0x10FFxx); &'static u8 payloads point into a 4-element static",
          'discriminant table and payload comparison oracle written from the config by vk/p_c04.py']


def main(tier, seed, keep=False):
    from .runner import run_e1
    return run_e1('C04', tier, seed, gen(tier, seed), RULE, BOUNDS, ASSUME, keep=keep)
