"""C18 — every subset of trait features builds (E3, all 4096 subsets symbolic) and behaves like the full
build (E1 on a stated list of subsets)."""
import json
import os
import random
import shutil
import time
import copy

from . import e3
from .runner import VERIF, WORK, Harness, Module, write_crate, run_kani, evaluate, Outcome
from . import p_c02, p_c03, p_c05, p_c06, p_c07, p_c08, p_c09, p_c10
from . import shapes as S

F = e3.FEATURES


def special(name, needs, body, harness='h'):
    return (needs, lambda mn: Module(mn, name, body, [Harness(harness, covers=['reached'])], sample=dict(note=name)))


def generators():
    """-> list of (required feature set, fn(modname) -> Module)"""
    G = []
    D = p_c06
    for spc in [D.Spec('struct', 'Rn', [dict(kind='named', vname=None, nf=None, fields=['r', 'i', 'm'])]),
                D.Spec('enum', True, [dict(kind='tuple', vname=None, nf=None, fields=['p', 'm']), dict(kind='named', vname=False, nf=None, fields=['p']), dict(kind='unit', vname=None, nf=None, fields=[])])]:
        G.append(({'Debug'}, lambda mn, spc=spc: p_c06.emit(mn, 'Debug:' + D.spec_id(spc), copy.deepcopy(spc), modes=('compact',))))
    for sh in [('struct', [('named', ['m', 'b', 'u'])]), ('enum', [('tuple', ['b', 'm']), ('named', ['u']), ('unit', [])])]:
        G.append(({'Clone'}, lambda mn, sh=sh: p_c07.emit(mn, 'Clone:' + S.shape_id(sh), sh, False)))
    for sh in [('struct', [('tuple', ['l', 'u'])]), ('enum', [('tuple', ['l', 'k']), ('named', ['u', 'l']), ('unit', [])])]:
        G.append(({'Clone', 'Copy'}, lambda mn, sh=sh: p_c07.emit(mn, 'Copy+Clone:' + S.shape_id(sh), sh, True)))
    for sh in [('struct', [('named', ['p', 'i', 'm'])]), ('enum', [('tuple', ['m', 'q', 'i']), ('named', ['i', 'p']), ('unit', [])])]:
        G.append(({'PartialEq'}, lambda mn, sh=sh: p_c02.emit(p_c02.build(sh, 'PartialEq', False), mn, 'PartialEq:' + S.shape_id(sh))))
        G.append(({'PartialEq', 'Eq'}, lambda mn, sh=sh: p_c02.emit(p_c02.build(sh, 'Eq', True), mn, 'PartialEq+Eq:' + S.shape_id(sh))))
    for k, (fl, r, mode, need) in enumerate([(['n', 'p', 'm'], [None, 0, -3], 'pord', {'PartialOrd'}), (['p', 'm', 'i'], [7, -3, None], 'both_ord', {'PartialOrd', 'Ord'}),
                                            (['p', 'p', 'm'], [0, 7, -3], 'ordonly', {'Ord'}), (['m', 'i', 'p'], [None, None, 0], 'both_pord', {'PartialOrd', 'Ord'})]):
        def mk(mn, fl=fl, r=r, mode=mode, k=k):
            shape, ranks = p_c03.place(fl, r, k + 1)
            return p_c03.emit(mn, f'Ord:{"".join(fl)}/{mode}', shape, ranks, mode)
        G.append((need, mk))
    for sh in [('struct', [('tuple', ['p', 'i', 'm'])]), ('enum', [('named', ['m', 'w']), ('tuple', ['i', 'p']), ('unit', [])])]:
        G.append(({'Hash'}, lambda mn, sh=sh: p_c05.emit(mn, 'Hash:' + S.shape_id(sh), sh, False)))
    for (kind, vs, marked, te, new) in [('struct', [('named', ['e', 'd', 'e'])], 0, False, True), ('enum', [('unit', []), ('tuple', ['e', 'd']), ('named', ['d'])], 1, False, False), ('union', [('named', ['d', 'e'])], 1, False, True)]:
        G.append(({'Default'}, lambda mn, kind=kind, vs=vs, marked=marked, te=te, new=new: p_c08.emit(mn, 'Default:' + p_c08.vid(kind, vs, marked, te, new, False), kind, vs, marked, te, new)))
    specs9 = p_c09.variant_specs(False)
    specs9m = p_c09.variant_specs(True)
    G.append(({'Deref'}, lambda mn: p_c09.emit(mn, 'Deref:enum', 'enum', [specs9[7], specs9[20]], False)))
    G.append(({'Deref', 'DerefMut'}, lambda mn: p_c09.emit(mn, 'Deref+DerefMut:enum', 'enum', [specs9m[9], specs9m[30]], True)))
    for (ftys, targets, rot) in [(['u8', 'u16'], ['u16', 'u32'], 1), (['u8', 'u8', 'u32'], ['u8', 'u32', 'Wr'], 0)]:
        def mk(mn, ftys=ftys, targets=targets, rot=rot):
            v0 = p_c10.build_variant(0, 'named', ftys, targets, rot)
            return p_c10.emit(mn, f'Into:{",".join(ftys)}', 'struct', [v0], targets)
        G.append(({'Into'}, mk))
    G.append(special('stand-alone Copy next to a hand-written Clone', {'Copy'}, '''#[derive(Educe)]
#[educe(Copy)]
pub struct Ty(pub u8, pub u16);
impl Clone for Ty { fn clone(&self) -> Self { Ty(self.0, self.1) } }
#[cfg_attr(kani, kani::proof)]
pub fn h() { let x = Ty(kani::any(), kani::any()); let p = x; let q = x; kani::cover!(true, "reached"); assert!(p.0 == q.0 && p.1 == q.1); }
'''))
    G.append(special('stand-alone Eq next to a hand-written PartialEq', {'Eq'}, '''#[derive(Educe)]
#[educe(Eq)]
pub struct Ty(pub u8);
impl PartialEq for Ty { fn eq(&self, o: &Self) -> bool { self.0 == o.0 } }
fn req<T: Eq>(_t: &T) {}
#[cfg_attr(kani, kani::proof)]
pub fn h() { let x = Ty(kani::any()); req(&x); kani::cover!(true, "reached"); assert!(x == Ty(x.0)); }
'''))
    G.append(special('stand-alone DerefMut next to a hand-written Deref', {'DerefMut'}, '''#[derive(Educe)]
#[educe(DerefMut)]
pub struct Ty(pub u16, #[educe(DerefMut)] pub u8);
impl core::ops::Deref for Ty { type Target = u8; fn deref(&self) -> &u8 { &self.1 } }
#[cfg_attr(kani, kani::proof)]
pub fn h() { let mut x = Ty(kani::any(), kani::any()); let a = x.0; let v: u8 = kani::any(); *x = v; kani::cover!(true, "reached"); assert!(x.1 == v && x.0 == a); }
'''))
    # explicit bound modes on each trait whose handler has a paired cfg(feature = partner) / cfg(not(..)) site: the partner being compiled
    # out must not change what the trait's own attribute accepts or emits
    G.append(special('Eq(bound(T: Eq)) next to a hand-written PartialEq', {'Eq'}, '''#[derive(Educe)]
#[educe(Eq(bound(T: ::core::cmp::Eq)))]
pub struct Ty<T>(pub T);
impl<T: PartialEq> PartialEq for Ty<T> { fn eq(&self, o: &Self) -> bool { self.0 == o.0 } }
fn req<T: Eq>(_t: &T) {}
#[cfg_attr(kani, kani::proof)]
pub fn h() { let x = Ty::<u8>(kani::any()); req(&x); kani::cover!(true, "reached"); assert!(x == Ty(x.0)); }
'''))
    G.append(special('Eq(bound = false) on an enum next to a hand-written PartialEq', {'Eq'}, '''#[derive(Educe)]
#[educe(Eq(bound = false))]
pub enum Ty<T> { A(T), B }
impl<T> PartialEq for Ty<T> { fn eq(&self, o: &Self) -> bool { matches!((self, o), (Ty::B, Ty::B)) } }
fn req<T: Eq>(_t: &T) {}
#[cfg_attr(kani, kani::proof)]
pub fn h() { let x = Ty::<f32>::B; req(&x); kani::cover!(true, "reached"); assert!(x == Ty::B); }
'''))
    G.append(special('Copy(bound(T: Copy)) next to a hand-written Clone', {'Copy'}, '''#[derive(Educe)]
#[educe(Copy(bound(T: ::core::marker::Copy)))]
pub struct Ty<T>(pub T, pub u16);
impl<T: Copy> Clone for Ty<T> { fn clone(&self) -> Self { Ty(self.0, self.1) } }
#[cfg_attr(kani, kani::proof)]
pub fn h() { let x = Ty::<u8>(kani::any(), kani::any()); let p = x; let q = x; kani::cover!(true, "reached"); assert!(p.0 == q.0 && p.1 == q.1); }
'''))
    G.append(special('Clone(bound(T: Clone)) without Copy', {'Clone'}, '''#[derive(Educe)]
#[educe(Clone(bound(T: ::core::clone::Clone)))]
pub struct Ty<T>(pub T, pub u16);
#[cfg_attr(kani, kani::proof)]
pub fn h() { let x = Ty::<u8>(kani::any(), kani::any()); let y = x.clone(); kani::cover!(true, "reached"); assert!(x.0 == y.0 && x.1 == y.1); }
'''))
    G.append(special('PartialOrd(bound(T: PartialOrd)) next to a hand-written PartialEq', {'PartialOrd'}, '''#[derive(Educe)]
#[educe(PartialOrd(bound(T: ::core::cmp::PartialOrd)))]
pub struct Ty<T>(pub T, pub u8);
impl<T: PartialEq> PartialEq for Ty<T> { fn eq(&self, o: &Self) -> bool { self.0 == o.0 && self.1 == o.1 } }
#[cfg_attr(kani, kani::proof)]
pub fn h() { let x = Ty::<u8>(kani::any(), kani::any()); let y = Ty::<u8>(kani::any(), kani::any()); kani::cover!(true, "reached"); assert!(x.partial_cmp(&y) == (x.0, x.1).partial_cmp(&(y.0, y.1))); }
'''))
    G.append(special('Ord(bound(T: Ord)) next to hand-written PartialEq / Eq / PartialOrd', {'Ord'}, '''#[derive(Educe)]
#[educe(Ord(bound(T: ::core::cmp::Ord)))]
pub struct Ty<T>(pub T, pub u8);
impl<T: PartialEq> PartialEq for Ty<T> { fn eq(&self, o: &Self) -> bool { self.0 == o.0 && self.1 == o.1 } }
impl<T: Eq> Eq for Ty<T> {}
impl<T: Ord> PartialOrd for Ty<T> { fn partial_cmp(&self, o: &Self) -> Option<Ordering> { Some(Ord::cmp(self, o)) } }
#[cfg_attr(kani, kani::proof)]
pub fn h() { let x = Ty::<u8>(kani::any(), kani::any()); let y = Ty::<u8>(kani::any(), kani::any()); kani::cover!(true, "reached"); assert!(Ord::cmp(&x, &y) == (x.0, x.1).cmp(&(y.0, y.1))); }
'''))
    return G


def subsets(tier, seed):
    rng = random.Random(seed * 211 + 17)
    singles = [[f] for f in F]
    pairs = [['Copy', 'Clone'], ['PartialEq', 'Eq'], ['PartialOrd', 'Ord'], ['Deref', 'DerefMut']]
    allbut = [[g for g in F if g != f] for f in F]
    if tier == 'quick':
        k = seed % 12
        # two complementary subsets in which every coupled partner (Clone/Copy, PartialEq/Eq, PartialOrd/Ord, Deref/DerefMut) is compiled out are always in
        partners_off = [['Debug', 'Copy', 'Eq', 'Ord', 'Deref'], ['Clone', 'PartialEq', 'PartialOrd', 'Hash', 'Default', 'Into']]
        return [singles[k], singles[(k + 5) % 12], pairs[seed % 4], allbut[(k + 3) % 12]] + partners_off
    extra = [sorted(rng.sample(F, rng.randint(2, 7)), key=F.index) for _ in range(4)]
    return singles + pairs + allbut + [list(F)] + extra


def behaviour(tier, seed):
    """E1 under stated feature subsets: the enabled traits' quick cores against educe built with exactly that subset"""
    gens = generators()
    results = []
    total = Outcome()
    target_dir = os.path.join(WORK, 'target-kani')
    for si, sub in enumerate(subsets(tier, seed)):
        mods = []
        for need, mk in gens:
            if need <= set(sub):
                m = mk(f'm{len(mods):04d}')
                if m is not None:
                    m.cfgid = f'features={"+".join(sub)} :: ' + m.cfgid
                    mods.append(m)
        if not mods:
            continue
        d = os.path.join(WORK, f'c18_{tier}_{os.getpid()}_{si}')
        shutil.rmtree(d, ignore_errors=True)
        os.makedirs(d)
        write_crate(d, mods, 'hc_c18', features=sub)
        kr, alive = run_kani(d, mods, target_dir, 600, need_stubbing=True, log=os.path.join(WORK, f'c18_{tier}.log'))
        oc = evaluate('C18', tier, mods, kr, alive, d, target_dir, need_stubbing=True, features=sub)
        results.append((sub, len(mods), oc))
        for a in ('violations', 'known', 'inconclusive', 'unreplayed'):
            getattr(total, a).extend(getattr(oc, a))
        for a in ('discharged', 'obligations', 'nontrivial_cfgs', 'cbmc_props', 'replays'):
            setattr(total, a, getattr(total, a) + getattr(oc, a))
        total.solver_s += oc.solver_s
        total.symex_s += oc.symex_s
        if not oc.violations and not oc.inconclusive:
            shutil.rmtree(d, ignore_errors=True)
    return total, [dict(subset=s, modules=n, discharged=o.discharged, obligations=o.obligations) for s, n, o in results]


def main(tier, seed, keep=False):
    t0 = time.time()
    shutil.rmtree(os.path.join(VERIF, 'replays', 'C18'), ignore_errors=True)
    r = e3.main(tier, seed, keep)
    if isinstance(r, int):
        return r
    ev, viol, inconclusive, known, nq, nsat, validated, cross = r
    total, per_subset = behaviour(tier, seed)
    ev['coverage']['behavioural_subsets'] = per_subset
    ev['coverage']['behavioural_obligations'] = total.obligations
    ev['coverage']['behavioural_discharged'] = total.discharged
    ev['coverage']['cbmc_properties_checked'] = total.cbmc_props
    ev['coverage']['evaluations'] += total.obligations
    ev['coverage']['obligations'] += total.obligations
    ev['coverage']['discharged'] += total.discharged
    ev['coverage']['distinct_nontrivial'] += total.nontrivial_cfgs
    ev['violations'] = len(viol) + len(total.violations)
    ev['wall_s'] = round(time.time() - t0, 2)
    json.dump(ev, open(os.path.join(VERIF, 'evidence', 'C18.json'), 'w'), indent=1)
    for v in viol[:6]:
        print(f"VIOLATION property=C18 replay={v['replay']}\n  feature subset: {v['subset']}\n  what: {v['what']}")
    for v in total.violations[:4]:
        print(f"VIOLATION property=C18 replay={v['replay']}\n  config: {v['config']}\n  what: {v['what']}")
    if viol or total.violations:
        return 1
    inc = inconclusive + total.inconclusive
    if inc:
        for s in inc[:12]:
            print('INCONCLUSIVE: ' + s[:600])
        return 2
    print(f'OK property=C18: {nq - nsat}/{nq} structural obligations unsat over all 4096 feature subsets ({nsat} models, all refuted by rustc), {validated} subsets confirmed by cargo check -D warnings, '
          f'cvc5 agrees on {cross["agree"]}/{cross["asked"]}; behaviour: {total.discharged}/{total.obligations} harnesses under {len(per_subset)} feature subsets')
    return 0
