"""C15 — each trait's impl depends only on that trait's own attributes (behavioural independence).

Trait t's generated impl is discharged against t's own oracle (computed from t's attributes alone,
plus the documented partners) while a set S of other traits with deliberately conflicting
attributes on the same fields is present.  Cross-talk changes behaviour for some value."""
import copy
import random
from .model import Spelling
from . import p_c02, p_c03, p_c05, p_c06, p_c07, p_c08, p_c09, p_c10
from . import shapes as S

COPY_TYPES = ('u8', 'u16', 'u32', 'Mod4', 'Nan', 'Unlawful', 'Val<', 'D<', "&'static")
EQ_TYPES = ('u8', 'u16', 'u32', 'Mod4', 'Bump', 'Unlawful')


def dflt_expr(ty):
    if ty in ('u8', 'u16', 'u32'):
        return '7'
    if ty.startswith('Val<'):
        return 'crate::support::dbg::Val(1)'
    if ty.startswith('D<'):
        return 'D(1)'
    if ty in ('Mod4', 'Nan', 'Bump', 'Unlawful'):
        return f'{ty}(1)'
    return None


def field_attr(s, i, rot, ty):
    """a conflicting attribute for bystander trait s on field i"""
    k = (i + rot) % 3
    if s in ('PartialEq', 'Eq'):
        return [{'ignore': True}, {'method': 'eq_any'}, {'method': 'eq_any'}][k]
    if s == 'Hash':
        return [{'method': 'hash_any'}, {'ignore': True}, {'ignore': True}][k]
    if s == 'PartialOrd':
        return [{'ignore': True}, {'method': 'pcmp_any', 'rank': 200 - i}, {'method': 'pcmp_any', 'rank': 100 + i}][k]
    if s == 'Ord':
        return [{'method': 'cmp_any', 'rank': 300 - i}, {'ignore': True}, {'method': 'cmp_any', 'rank': 50 + i}][k]
    if s == 'Debug':
        return [{'ignore': True}, {'method': 'fmt_any'}, {'method': 'fmt_any'}][k]
    return None


def make_xf(extras, rot, allow_structural=True):
    """-> xf(t): add the bystander traits `extras` with conflicting attributes everywhere"""
    def xf(t):
        have = set(t.trait_names())
        all_tys = [f.ty for v in t.variants for f in v.fields]
        add = []
        for s in extras:
            if s in have:
                continue
            if s in ('Copy', 'Clone') and any(ty.startswith("&'static mut") for ty in all_tys):
                continue
            if s == 'Copy' and not all(any(ty.startswith(c) for c in COPY_TYPES) for ty in all_tys):
                continue
            if s == 'Copy' and 'Clone' not in have and 'Clone' not in extras:
                continue
            if s == 'Eq' and ('PartialEq' not in have and 'PartialEq' not in add):
                # stand-alone educed Eq next to a derived PartialEq (the request's own `#[derive(PartialEq, ..)]`)
                if not ('#[derive(PartialEq' in t.extra_attrs and 'Eq' not in t.extra_attrs.replace('PartialEq', '')):
                    continue
            if s == 'Ord' and not ({'PartialOrd', 'Eq'} <= (have | set(add)) or ({'Eq'} <= (have | set(add)) and 'PartialOrd' in extras)):
                continue
            if s == 'PartialOrd' and 'PartialEq' not in (have | set(add)) and '#[derive(PartialEq' not in t.extra_attrs:
                continue
            if s == 'Default':
                if t.kind == 'union' or any(dflt_expr(ty) is None for ty in all_tys) or (t.kind == 'enum' and not t.variants):
                    continue
            if s in ('Deref', 'DerefMut', 'Into'):
                if not allow_structural or t.kind != 'struct' or not t.variants[0].fields or t.generics:
                    continue
                if s == 'DerefMut' and 'Deref' not in (have | set(add)):
                    continue
                if s == 'DerefMut' and t.variants[0].fields[0].ty.startswith('&'):
                    continue
            add.append(s)
        if 'Debug' in add and 'Debug' in t.extra_attrs:
            # the request's own `#[derive(.., Debug)]` gives way to the educed bystander
            t.extra_attrs = t.extra_attrs.replace(', Debug', '').replace('Debug, ', '').replace('#[derive(Debug)]\n', '')
        for s in add:
            p = {}
            if s == 'Debug':
                p = {'name': 'Dbg'} if t.kind != 'enum' else {'name': True}
            if s == 'Default' and t.kind != 'union':
                p = {'new': True}
            if s == 'Into':
                p = {'ty': t.variants[0].fields[0].ty}
            entry = (s, p)
            if (rot + len(s)) % 2:
                t.traits.insert(0, entry)
            else:
                t.traits.append(entry)
        for vi, v in enumerate(t.variants):
            if 'Default' in add and t.kind == 'enum' and vi == (rot % len(t.variants)):
                v.a = dict(v.a)
                v.a['Default'] = {}
                dflt_variant = True
            else:
                dflt_variant = t.kind == 'struct'
            if 'Debug' in add and t.kind == 'enum' and v.kind != 'unit' and (vi + rot) % 2 == 0:
                v.a = dict(v.a)
                v.a['Debug'] = {'name': 'Dv'}
            for i, f in enumerate(v.fields):
                new = {}
                for s in add:
                    if s == 'Default':
                        if dflt_variant:
                            new['Default'] = {'expr': dflt_expr(f.ty)}
                        continue
                    if s in ('Deref', 'DerefMut'):
                        if i == 0 and len(v.fields) > 1:
                            new[s] = {}
                        continue
                    if s == 'Into':
                        if i == 0 and len(v.fields) > 1:
                            new['Into'] = [{'ty': f.ty}]
                        continue
                    if s in ('Clone', 'Copy', 'Eq'):
                        continue
                    if s == 'PartialOrd' and ('Ord' in add or 'Ord' in have):
                        continue   # with Ord educed too, Ord(..) is the single carrier of the field attributes
                    a = field_attr(s, i, rot + vi, f.ty)
                    if a is not None:
                        new[s] = a
                if (rot + i) % 2:
                    merged = dict(new)
                    merged.update(f.a)
                else:
                    merged = dict(f.a)
                    merged.update(new)
                f.a = merged
    return xf


def templates():
    """-> list of (name, primary trait(s), candidate bystanders, mk(modname, cfgid, xf))"""
    T = []
    ALL = ['Debug', 'Clone', 'Copy', 'PartialEq', 'Eq', 'PartialOrd', 'Ord', 'Hash', 'Default', 'Deref', 'DerefMut', 'Into']

    for sh, car in [(('struct', [('named', ['p', 'i', 'm'])]), 'PartialEq'), (('enum', [('tuple', ['m', 'q', 'i']), ('named', ['i', 'p']), ('unit', [])]), 'Eq'),
                    (('struct', [('tuple', ['q', 'm'])]), 'Eq'), (('enum', [('named', ['p', 'm']), ('tuple', ['i'])]), 'PartialEq')]:
        def mk(modname, cfgid, xf, sp=None, sh=sh, car=car):
            t = p_c02.build(sh, car, car == 'Eq')
            return p_c02.emit(t, modname, cfgid, xf=xf, sp=sp)
        T.append((f'PartialEq:{S.shape_id(sh)}/{car}', ['PartialEq', 'Eq'], [x for x in ALL if x not in ('PartialEq', 'Eq')], mk))

    for k, (fl, r, mode) in enumerate([(['p', 'm', 'i'], [7, -3, None], 'both_ord'), (['n', 'p', 'm'], [None, 0, -3], 'pord'), (['p', 'p', 'm'], [0, 7, -3], 'ordonly'), (['m', 'i', 'p'], [None, None, None], 'both_pord')]):
        def mk(modname, cfgid, xf, sp=None, fl=fl, r=r, mode=mode, k=k):
            shape, ranks = p_c03.place(fl, r, k + 2)
            return p_c03.emit(modname, cfgid, shape, ranks, mode, xf=xf, sp=sp)
        T.append((f'Ord:{"".join(fl)}/{mode}', ['PartialOrd', 'Ord', 'PartialEq', 'Eq'], ['Debug', 'Clone', 'Copy', 'Hash', 'Default', 'Deref', 'DerefMut', 'Into'], mk))

    for sh in [('struct', [('tuple', ['p', 'i', 'm'])]), ('enum', [('named', ['m', 'w']), ('tuple', ['i', 'p']), ('unit', [])]), ('struct', [('named', ['w', 'm'])])]:
        def mk(modname, cfgid, xf, sp=None, sh=sh):
            return p_c05.emit(modname, cfgid, sh, False, xf=xf, sp=sp)
        T.append((f'Hash:{S.shape_id(sh)}', ['Hash'], [x for x in ALL if x != 'Hash'], mk))

    D = p_c06
    for spc in [D.Spec('struct', 'Rn', [dict(kind='named', vname=None, nf=None, fields=['r', 'i', 'm'])]),
                D.Spec('enum', True, [dict(kind='tuple', vname=None, nf=None, fields=['p', 'm']), dict(kind='named', vname='Rv', nf=None, fields=['i', 'r']), dict(kind='unit', vname=None, nf=None, fields=[])]),
                D.Spec('struct', None, [dict(kind='tuple', vname=None, nf=None, fields=['m', 'p'])], True)]:
        def mk(modname, cfgid, xf, sp=None, spc=spc):
            return p_c06.emit(modname, cfgid, copy.deepcopy(spc), xf=xf, modes=('compact',), sp=sp)
        T.append((f'Debug:{D.spec_id(spc)}', ['Debug'], ['Clone', 'Copy', 'PartialEq', 'Hash', 'PartialOrd', 'Default'], mk))

    for sh, cp in [(('struct', [('named', ['m', 'b', 'u'])]), False), (('enum', [('tuple', ['b', 'm']), ('named', ['u']), ('unit', [])]), False), (('enum', [('tuple', ['l', 'k']), ('named', ['u', 'l'])]), True),
                   # Copy without any method: the bitwise shortcut (clone is `*self`, clone_from is the default one)
                   (('enum', [('tuple', ['l', 'u']), ('named', ['u']), ('unit', [])]), True), (('struct', [('named', ['u', 'l'])]), True)]:
        def mk(modname, cfgid, xf, sp=None, sh=sh, cp=cp):
            return p_c07.emit(modname, cfgid, sh, cp, xf=xf, sp=sp)
        T.append((f'Clone:{S.shape_id(sh)}/copy={int(cp)}', ['Clone', 'Copy', 'PartialEq'], ['Debug', 'Hash', 'Eq', 'PartialOrd', 'Default', 'Deref', 'DerefMut', 'Into'], mk))

    for (kind, vs, marked, te, new) in [('struct', [('named', ['e', 'd', 'e'])], 0, False, True), ('enum', [('unit', []), ('tuple', ['e', 'd']), ('named', ['d'])], 1, False, False), ('struct', [('tuple', ['d', 'e'])], 0, True, False)]:
        def mk(modname, cfgid, xf, sp=None, kind=kind, vs=vs, marked=marked, te=te, new=new):
            return p_c08.emit(modname, cfgid, kind, vs, marked, te, new, xf=xf, sp=sp)
        T.append((f'Default:{p_c08.vid(kind, vs, marked, te, new, False)}', ['Default', 'PartialEq'], ['Debug', 'Clone', 'Copy', 'Eq', 'Hash', 'PartialOrd', 'Deref', 'DerefMut', 'Into'], mk))

    specs9 = p_c09.variant_specs(True)
    for idx in (5, 40, 77):
        sp9 = specs9[idx % len(specs9)]
        def mk(modname, cfgid, xf, sp=None, sp9=sp9):
            return p_c09.emit(modname, cfgid, 'struct', [sp9], True, xf=xf, sp=sp)
        T.append((f'Deref:{p_c09.sid(sp9)}', ['Deref', 'DerefMut'], ['Debug', 'Clone', 'PartialEq', 'Hash', 'PartialOrd', 'Into'], mk))
    def mk9e(modname, cfgid, xf, sp=None):
        return p_c09.emit(modname, cfgid, 'enum', [specs9[9], specs9[30]], True, xf=xf, sp=sp)
    T.append(('Deref:enum2', ['Deref', 'DerefMut'], ['Debug', 'Clone', 'PartialEq', 'Hash', 'PartialOrd'], mk9e))

    for (ftys, targets, rot) in [(['u8', 'u16'], ['u16', 'u32'], 1), (['u8', 'u8', 'u32'], ['u8', 'u32', 'Wr'], 0)]:
        def mk(modname, cfgid, xf, sp=None, ftys=ftys, targets=targets, rot=rot):
            v0 = p_c10.build_variant(0, 'named', ftys, targets, rot)
            return p_c10.emit(modname, cfgid, 'struct', [v0], targets, xf=xf, sp=sp)
        T.append((f'Into:{",".join(ftys)}->{",".join(targets)}', ['Into', 'Clone', 'Copy'], ['Debug', 'PartialEq', 'Hash', 'PartialOrd', 'Default', 'Deref', 'DerefMut'], mk))
    return T


def differential_modules(start):
    """expansion against expansion: the same fieldless enum (explicit discriminants, so that position != discriminant) with trait t alone
    and with every other trait educed next to it must feed the same data to a hasher / order the same way.  The per-trait oracles of
    C05 / C03 leave the variant tag free (any injective tag satisfies them), so a fast path keyed on a bystander trait needs this."""
    from .runner import Harness, Module
    decl = lambda traits, derives: f'#[derive(Educe)]\n#[educe({traits})]\n{derives}pub enum E {{ A = 1, B = 5, C, D = 3 }}\n'
    body = ('pub mod alone { use educe::Educe; ' + decl('Hash', '#[derive(Clone, Copy)]\n') + '}\n'
            + 'pub mod with_copy { use educe::Educe; ' + decl('Hash, Clone, Copy', '') + '}\n'
            + 'pub mod with_cmp { use educe::Educe; ' + decl('PartialEq, Eq, Hash, PartialOrd, Ord', '#[derive(Clone, Copy)]\n') + '}\n'
            + 'pub mod with_all { use educe::Educe; ' + decl('Debug(name = true), Clone, Copy, PartialEq, Eq, PartialOrd, Ord, Hash, Default', '').replace('A = 1', '#[educe(Default)] A = 1') + '}\n'
            + 'pub mod ord_alone { use educe::Educe; ' + decl('PartialOrd, Ord', '#[derive(PartialEq, Eq, Clone, Copy)]\n') + '}\n'
            + 'pub mod pord_alone { use educe::Educe; ' + decl('PartialOrd', '#[derive(PartialEq, Clone, Copy)]\n') + '}\n')
    pick = lambda m: f'match s {{ 0 => {m}::E::A, 1 => {m}::E::B, 2 => {m}::E::C, _ => {m}::E::D }}'
    h1 = Harness('h_hash_same', unwind=8, covers=['reached'])
    body += h1.attrs() + f'''pub fn h_hash_same() {{
    let s: u8 = kani::any::<u8>() % 4;
    let r0 = rec_of(&{pick('alone')});
    kani::cover!(true, "reached");
    assert!(r0.same(&rec_of(&{pick('with_copy')})), "Hash feeds different data once Copy / Clone are educed too");
    assert!(r0.same(&rec_of(&{pick('with_cmp')})), "Hash feeds different data once PartialEq / Eq / PartialOrd / Ord are educed too");
    assert!(r0.same(&rec_of(&{pick('with_all')})), "Hash feeds different data once every other trait is educed too");
}}
'''
    h2 = Harness('h_ord_same', covers=['reached'])
    pick2 = lambda m, v: f'match {v} {{ 0 => {m}::E::A, 1 => {m}::E::B, 2 => {m}::E::C, _ => {m}::E::D }}'
    body += h2.attrs() + f'''pub fn h_ord_same() {{
    let s: u8 = kani::any::<u8>() % 4;
    let t: u8 = kani::any::<u8>() % 4;
    let o = Ord::cmp(&{pick2('ord_alone', 's')}, &{pick2('ord_alone', 't')});
    kani::cover!(true, "reached");
    assert!(PartialOrd::partial_cmp(&{pick2('pord_alone', 's')}, &{pick2('pord_alone', 't')}) == Some(o), "stand-alone PartialOrd orders differently from Ord");
    assert!(Ord::cmp(&{pick2('with_cmp', 's')}, &{pick2('with_cmp', 't')}) == o, "Ord orders differently once Hash is educed too");
    assert!(Ord::cmp(&{pick2('with_all', 's')}, &{pick2('with_all', 't')}) == o && PartialOrd::partial_cmp(&{pick2('with_all', 's')}, &{pick2('with_all', 't')}) == Some(o), "Ord / PartialOrd order differently once every other trait is educed too");
}}
'''
    mods = [Module(f'm{start:04d}', 'differential: fieldless enum { A = 1, B = 5, C, D = 3 } with Hash / Ord alone vs. with every other trait educed (expansion against expansion)', body, [h1, h2],
                   sample=dict(type_definition='enum E { A = 1, B = 5, C, D = 3 }'), functions=FUNCTIONS)]
    # payload-carrying shapes: each trait alone vs. all traits together
    tdecl = lambda traits, derives, dm: (f'#[derive(Educe)]\n#[educe({traits})]\n{derives}pub struct St {{ pub a: u8, pub b: u16 }}\n'
                                         f'#[derive(Educe)]\n#[educe({traits})]\n{derives}pub enum En {{ {dm}A(u8), B {{ x: u8, y: u8 }}, C }}\n')
    ALLT = 'Debug, Clone, Copy, PartialEq, Eq, PartialOrd, Ord, Hash, Default'
    body = 'use crate::support::dbg::*;\n'
    body += 'pub mod all { use educe::Educe; ' + tdecl(ALLT, '', '#[educe(Default)] ') + '}\n'
    body += 'pub mod hash { use educe::Educe; ' + tdecl('Hash', '', '') + '}\n'
    body += 'pub mod peq { use educe::Educe; ' + tdecl('PartialEq', '', '') + '}\n'
    body += 'pub mod ord { use educe::Educe; ' + tdecl('PartialOrd, Ord', '#[derive(PartialEq, Eq)]\n', '') + '}\n'
    body += 'pub mod dbg1 { use educe::Educe; ' + tdecl('Debug', '', '') + '}\n'
    body += 'pub mod dflt { use educe::Educe; ' + tdecl('Default', '', '#[educe(Default)] ') + '}\n'
    mk = lambda m: f'(|s: u8, p: u8, q: u8| match s % 3 {{ 0 => {m}::En::A(p), 1 => {m}::En::B {{ x: p, y: q }}, _ => {m}::En::C }})'
    h3 = Harness('h_payload_same', unwind=8, covers=['reached'])
    body += h3.attrs() + f'''pub fn h_payload_same() {{
    let (s, p, q, t, u, v): (u8, u8, u8, u8, u8, u8) = (kani::any(), kani::any(), kani::any(), kani::any(), kani::any(), kani::any());
    kani::cover!(true, "reached");
    assert!(rec_of(&{mk('hash')}(s, p, q)).same(&rec_of(&{mk('all')}(s, p, q))), "enum Hash alone vs. with every trait");
    assert!(rec_of(&hash::St {{ a: p, b: q as u16 }}).same(&rec_of(&all::St {{ a: p, b: q as u16 }})), "struct Hash alone vs. with every trait");
    assert!(({mk('peq')}(s, p, q) == {mk('peq')}(t, u, v)) == ({mk('all')}(s, p, q) == {mk('all')}(t, u, v)), "enum PartialEq alone vs. with every trait");
    assert!(Ord::cmp(&{mk('ord')}(s, p, q), &{mk('ord')}(t, u, v)) == Ord::cmp(&{mk('all')}(s, p, q), &{mk('all')}(t, u, v)), "enum Ord alone vs. with every trait");
    assert!(Ord::cmp(&ord::St {{ a: p, b: q as u16 }}, &ord::St {{ a: u, b: v as u16 }}) == Ord::cmp(&all::St {{ a: p, b: q as u16 }}, &all::St {{ a: u, b: v as u16 }}), "struct Ord alone vs. with every trait");
    let d0 = <dflt::En as Default>::default();
    let d1 = <all::En as Default>::default();
    assert!(matches!((d0, d1), (dflt::En::A(0), all::En::A(0))), "enum Default alone vs. with every trait");
}}
'''
    h4 = Harness('h_debug_same', unwind=48, covers=['reached'])
    body += h4.attrs() + f'''pub fn h_debug_same() {{
    let s: u8 = kani::any();
    let (b1, r1) = render(&{mk('dbg1')}(s, 7, 9), false);
    let (b2, r2) = render(&{mk('all')}(s, 7, 9), false);
    kani::cover!(true, "reached");
    assert!(r1.is_ok() && r2.is_ok() && !b1.overflow && b1.same(&b2), "enum Debug alone vs. with every trait");
    let (b3, r3) = render(&dbg1::St {{ a: 3, b: 300 }}, false);
    let (b4, r4) = render(&all::St {{ a: 3, b: 300 }}, false);
    assert!(r3.is_ok() && r4.is_ok() && !b3.overflow && b3.same(&b4), "struct Debug alone vs. with every trait");
}}
'''
    mods.append(Module(f'm{start + 1:04d}', 'differential: struct St { a, b } and enum En { A(u8), B { x, y }, C } with each trait alone vs. with every trait educed (expansion against expansion)', body, [h3, h4],
                       sample=dict(type_definition='struct St { a: u8, b: u16 }; enum En { A(u8), B { x: u8, y: u8 }, C }'), functions=FUNCTIONS))
    # wide shapes (5 fields) in which every trait ignores a *different* field: t alone (with its own attribute) vs. all traits with all attributes
    def wdecl(traits, own, derives):
        at = lambda i: ('#[educe(' + ', '.join(own[i]) + ')] ' if own.get(i) else '')
        fs = ', '.join(f'{at(i)}pub {nm}: u8' for i, nm in enumerate('abcde'))
        vf = ', '.join(f'{at(i)}u8' for i in range(5))
        return (f'#[derive(Educe)]\n#[educe({traits})]\n{derives}pub struct W {{ {fs} }}\n'
                f'#[derive(Educe)]\n#[educe({traits})]\n{derives}pub enum V {{ T({vf}), U }}\n')
    own_all = {1: ['PartialEq(ignore)'], 2: ['Hash(ignore)'], 3: ['Ord(ignore)'], 4: ['Debug(ignore)']}
    body = 'use crate::support::dbg::*;\n'
    body += 'pub mod all { use educe::Educe; ' + wdecl('Debug, Clone, PartialEq, Eq, PartialOrd, Ord, Hash', own_all, '') + '}\n'
    body += 'pub mod peq { use educe::Educe; ' + wdecl('PartialEq', {1: ['PartialEq(ignore)']}, '') + '}\n'
    body += 'pub mod hash { use educe::Educe; ' + wdecl('Hash', {2: ['Hash(ignore)']}, '') + '}\n'
    body += 'pub mod ord { use educe::Educe; ' + wdecl('PartialOrd, Ord', {3: ['Ord(ignore)']}, '#[derive(PartialEq, Eq)]\n') + '}\n'
    body += 'pub mod dbg1 { use educe::Educe; ' + wdecl('Debug', {4: ['Debug(ignore)']}, '') + '}\n'
    mkw = lambda m, v: f'{m}::W {{ a: {v}[0], b: {v}[1], c: {v}[2], d: {v}[3], e: {v}[4] }}'
    mkv = lambda m, v: f'{m}::V::T({v}[0], {v}[1], {v}[2], {v}[3], {v}[4])'
    h5 = Harness('h_wide_same', unwind=10, covers=['reached'])
    body += h5.attrs() + f'''pub fn h_wide_same() {{
    let x: [u8; 5] = Sym::sym();
    let y: [u8; 5] = Sym::sym();
    kani::cover!(true, "reached");
    assert!(({mkw('peq', 'x')} == {mkw('peq', 'y')}) == ({mkw('all', 'x')} == {mkw('all', 'y')}), "wide struct PartialEq alone vs. with every trait");
    assert!(({mkv('peq', 'x')} == {mkv('peq', 'y')}) == ({mkv('all', 'x')} == {mkv('all', 'y')}), "wide variant PartialEq alone vs. with every trait");
    assert!(Ord::cmp(&{mkw('ord', 'x')}, &{mkw('ord', 'y')}) == Ord::cmp(&{mkw('all', 'x')}, &{mkw('all', 'y')}), "wide struct Ord alone vs. with every trait");
    assert!(PartialOrd::partial_cmp(&{mkw('ord', 'x')}, &{mkw('ord', 'y')}) == PartialOrd::partial_cmp(&{mkw('all', 'x')}, &{mkw('all', 'y')}), "wide struct PartialOrd alone vs. with every trait");
    assert!(Ord::cmp(&{mkv('ord', 'x')}, &{mkv('ord', 'y')}) == Ord::cmp(&{mkv('all', 'x')}, &{mkv('all', 'y')}), "wide variant Ord alone vs. with every trait");
    assert!(rec_of(&{mkw('hash', 'x')}).same(&rec_of(&{mkw('all', 'x')})), "wide struct Hash alone vs. with every trait");
    assert!(rec_of(&{mkv('hash', 'x')}).same(&rec_of(&{mkv('all', 'x')})), "wide variant Hash alone vs. with every trait");
}}
'''
    mods.append(Module(f'm{start + 2:04d}', 'differential: 5-field struct and variant in which every trait ignores a different field, each trait alone vs. all traits together', body, [h5],
                       sample=dict(type_definition='struct W { a, #[PartialEq(ignore)] b, #[Hash(ignore)] c, #[Ord(ignore)] d, #[Debug(ignore)] e }'), functions=FUNCTIONS))
    return mods


def gen(tier, seed):
    mods = []
    n = 0
    rng = random.Random(seed * 3 + 5)
    for ti, (name, primary, cands, mk) in enumerate(templates()):
        cands = [c for c in cands if c not in primary]
        # bystander sets of size <= 4 covering every candidate at least once; thorough: also every single and the full set
        sets = []
        k = 4
        rot = ti
        cs = cands[rot % len(cands):] + cands[:rot % len(cands)]
        for i in range(0, len(cs), k - 1):
            sets.append(cs[i:i + k])
        if tier != 'quick':
            sets += [[c] for c in cands] + [cands]
            for _ in range(3):
                sets.append(rng.sample(cands, min(len(cands), rng.randint(2, 4))))
        else:
            sets.append(rng.sample(cands, min(len(cands), 3)))
        for si, st in enumerate(sets):
            # Copy needs Clone, Ord needs PartialOrd/Eq: add the partner when missing
            st = list(st)
            if 'Copy' in st and 'Clone' not in st and 'Clone' not in primary:
                st.append('Clone')
            if 'Ord' in st and 'PartialOrd' not in st and 'PartialOrd' not in primary:
                st.append('PartialOrd')
            if 'Ord' in st and 'Eq' not in st and 'Eq' not in primary:
                st.append('Eq')
            if 'PartialOrd' in st and 'PartialEq' not in st and 'PartialEq' not in primary:
                st.insert(0, 'PartialEq')
            if 'Eq' in st and 'PartialEq' not in st and 'PartialEq' not in primary:
                st.insert(0, 'PartialEq')
            if 'DerefMut' in st and 'Deref' not in st:
                st.insert(0, 'Deref')
            xf = make_xf(st, ti + si)
            style = (ti + si) % 3
            sp = [None, Spelling(force={'grouping': 1, 'traitorder': 1 + (ti + si) % 3}), Spelling(force={'grouping': 0, 'traitorder': 1 + (ti + si) % 2})][style]
            m = mk(f'm{n:04d}', f'{name} + bystanders {{{", ".join(st)}}}' + ['', '/separate #[educe] attributes, rotated', '/one #[educe] list, rotated'][style], xf, sp)
            if m is not None:
                mods.append(m)
                n += 1
    # variant-level lists that carry two traits (`#[educe(Default, Debug(name = ..))]`): the Default marker on every variant in turn, the
    # bystander first in one list, on the enum templates of Debug (bystander Default) and Default (bystander Debug)
    for ti, (name, primary, cands, mk) in enumerate(templates()):
        by = 'Default' if name.startswith('Debug:enum') else 'Debug' if name.startswith('Default:enum') else None
        if by is None:
            continue
        for rot in range(3):
            for order in (1, 2):
                if tier == 'quick' and (rot + order) % 2 == 0 and by == 'Debug':
                    continue
                m = mk(f'm{n:04d}', f'{name} + bystanders {{{by}}}/one #[educe] list on the variant, rotated by {order}, marker rotation {rot}', make_xf([by], rot), Spelling(force={'grouping': 0, 'traitorder': order}))
                if m is not None:
                    mods.append(m)
                    n += 1
    mods += differential_modules(n)
    return mods


RULE = ('one config = (trait t with its own attributes on a request from the C02..C10 grammars) + a set S (<= 4, covering every other trait at least once per template in quick; singles, full set and random sets in thorough) of bystander traits '
        'carrying conflicting attributes on the same fields (ignore where t compares, generic methods, other ranks, renames, default expressions, Deref/Into markers), inserted before or after t\'s attributes. '
        't is discharged against t\'s own oracle for all values. Documented couplings (Copy-Clone, Eq-PartialEq, Ord-PartialOrd) are part of the primary and never used as bystanders against each other. Non-trivial = all harnesses passed with witnesses SATISFIED.')
BOUNDS = dict(max_bystanders=4, outside=['token-level "unchanged" (only behaviour is compared)', 'bystander attributes outside {ignore, method, rank, name, expression, markers}'])
ASSUME = ['as for C02..C10; bystander methods eq_any/cmp_any/pcmp_any/hash_any/fmt_any are type-agnostic so any trait can be added to any request']
FUNCTIONS = ['every primary expansion of C02..C10 generated next to bystander traits (lib.rs per-trait dispatch; build_from_attributes scanners of every models/*_attribute.rs)']


def main(tier, seed, keep=False):
    from .runner import run_e1
    mods = gen(tier, seed)
    for m in mods:
        m.functions = FUNCTIONS
    return run_e1('C15', tier, seed, mods, RULE, BOUNDS, ASSUME, need_stubbing=True, keep=keep, harness_timeout=600 if tier == 'quick' else 1200)
