"""C09 — Deref and DerefMut expose exactly the designated field."""
import itertools
import random
from .model import F, V, T, render_type, pattern, any_fn, variant_index_fn
from .runner import Harness, Module
from . import shapes as S

FUNCTIONS = ['<T as ::core::ops::Deref>::deref (educe expansion, struct and enum)', '<T as ::core::ops::DerefMut>::deref_mut (educe expansion, struct and enum)']
REFTY = {'val': 'u8', 'ref': "&'static u8", 'refref': "&'static &'static u8", 'mutref': "&'static mut u8"}
OTHER = ['u16', 'u8', 'u32']


def build_variant(k, vk, n, dpos, mpos, dty, mark_single, with_mut):
    fields = []
    for i in range(n):
        a = {}
        ty = OTHER[(i + k) % 3]
        if i == dpos:
            ty = REFTY[dty]
            if n > 1 or mark_single:
                a['Deref'] = {}
        if with_mut and i == mpos:
            if i != dpos:
                ty = 'u8' if (k + i + n) % 3 else REFTY['mutref']
            if n > 1 or mark_single:
                a['DerefMut'] = {}
        f = F(ty, S.fname(i, k, n) if vk == 'named' else None, **a)
        f.role = ('d' if i == dpos else '') + ('m' if with_mut and i == mpos else '')
        f.dty = dty if i == dpos else 'val'
        fields.append(f)
    return V(S.VNAMES[k], vk, fields)


def build(kind, vspecs, with_mut):
    variants = [build_variant(k, *spec, with_mut) for k, spec in enumerate(vspecs)]
    traits = [('Deref', {})] + ([('DerefMut', {})] if with_mut else [])
    return T(kind, 'Ty', variants, traits)


def widen(f, e):
    if f.ty in (REFTY['ref'], REFTY['mutref']):
        return f'(**{e}) as u32'
    if f.ty == REFTY['refref']:
        return f'(***{e}) as u32'
    return f'(*{e}) as u32'


def nsnap(t):
    return max([3] + [len(v.fields) for v in t.variants])


def oracle(t, with_mut):
    d_arms = m_arms = s_arms = ''
    N = nsnap(t)
    for v in t.variants:
        di = next(i for i, f in enumerate(v.fields) if 'd' in f.role)
        f = v.fields[di]
        e = {'val': f'a{di} as *const u8', 'ref': f'*a{di} as *const u8', 'refref': f'**a{di} as *const u8', 'mutref': f'&**a{di} as *const u8'}[f.dty]
        d_arms += f'        {pattern(t, v, "a")} => {e},\n'
        snap = [widen(f, f'a{i}') for i, f in enumerate(v.fields)] + ['0'] * (N - len(v.fields))
        s_arms += f'        {pattern(t, v, "a")} => [{", ".join(snap)}],\n'
        if with_mut:
            mi = next(i for i, f in enumerate(v.fields) if 'm' in f.role)
            mexp = f'&**a{mi} as *const u8' if v.fields[mi].ty == REFTY['mutref'] else f'a{mi} as *const u8'
            m_arms += f'        {pattern(t, v, "a")} => ({mexp}, {mi}),\n'
    s = f'pub fn designated(x: &Ty) -> *const u8 {{\n    match x {{\n{d_arms}    }}\n}}\n'
    s += f'pub fn snap(x: &Ty) -> [u32; {N}] {{\n    match x {{\n{s_arms}    }}\n}}\n'
    if with_mut:
        s += f'pub fn designated_mut(x: &Ty) -> (*const u8, usize) {{\n    match x {{\n{m_arms}    }}\n}}\n'
    return s


def emit(modname, cfgid, kind, vspecs, with_mut, sp=None, pre='', t_override=None, xf=None):
    t = t_override or build(kind, vspecs, with_mut)
    if xf:
        xf(t)
    body = pre + render_type(t, sp) + any_fn(t) + variant_index_fn(t) + oracle(t, with_mut)
    h1 = Harness('h_deref', covers=['reached'])
    body += h1.attrs() + '''pub fn h_deref() {
    let x = anyv();
    let want = designated(&x);
    let got: *const u8 = &*x;
    kani::cover!(true, "reached");
    assert!(got == want, "&*x is not the storage of the designated field");
    assert!(*x == unsafe { *want }, "*x is not the designated field's value");
}
'''
    hs = [h1]
    if with_mut:
        h2 = Harness('h_deref_mut', covers=['reached'])
        body += h2.attrs() + '''pub fn h_deref_mut() {
    let mut x = anyv();
    let before = snap(&x);
    let vi = vidx(&x);
    let (want, idx) = designated_mut(&x);
    let v: u8 = kani::any();
    {
        let r: &mut u8 = &mut *x;
        assert!(r as *mut u8 as *const u8 == want, "&mut *x is not the storage of the field marked DerefMut");
        *r = v;
    }
    kani::cover!(true, "reached");
    let after = snap(&x);
    assert!(vidx(&x) == vi, "write through DerefMut changed the variant");
    let mut i = 0;
    while i < NSNAP {
        if i == idx {
            assert!(after[i] == v as u32, "write through DerefMut did not reach the designated field");
        } else {
            assert!(after[i] == before[i], "write through DerefMut changed another field");
        }
        i += 1;
    }
}
'''
        body = body.replace('NSNAP', str(nsnap(t)))
        hs.append(h2)
    sample = dict(type_definition=render_type(t, sp), oracle=oracle(t, with_mut))
    return Module(modname, cfgid, body, hs, sample=sample, functions=FUNCTIONS)


def variant_specs(with_mut):
    """all (kind, n, dpos, mpos, dty, mark_single) for one variant"""
    out = []
    for vk in ('named', 'tuple'):
        for n in (1, 2, 3):
            for dpos in range(n):
                for dty in ('val', 'ref', 'refref', 'mutref'):
                    mposs = range(n) if with_mut else [0]
                    for mpos in mposs:
                        if with_mut and mpos == dpos and dty not in ('val', 'mutref'):
                            continue
                        for ms in ((False, True) if n == 1 else (False,)):
                            out.append((vk, n, dpos, mpos, dty, ms))
    return out


def sid(spec):
    vk, n, dpos, mpos, dty, ms = spec
    return f'{"N" if vk == "named" else "T"}{n}.d{dpos}{dty}.m{mpos}{"!" if ms else ""}'


def gen(tier, seed):
    mods = []
    n = 0
    rng = random.Random(seed * 613 + 1)
    for with_mut in (False, True):
        specs = variant_specs(with_mut)
        if tier == 'quick':
            # every spec once, alternately as a struct or as one variant of a 2-3 variant enum
            for i, sp in enumerate(specs):
                if i % 2 == 0:
                    mods.append(emit(f'm{n:04d}', f'struct[{sid(sp)}]/mut={int(with_mut)}', 'struct', [sp], with_mut)); n += 1
                else:
                    other = specs[(i * 7 + 3) % len(specs)]
                    third = specs[(i * 11 + 5) % len(specs)]
                    vs = [other, third]
                    vs.insert(i % 3, sp)
                    if i % 4 == 1:
                        vs = vs[:2] if i % 3 != 2 else vs[1:]
                    mods.append(emit(f'm{n:04d}', f'enum[{";".join(sid(x) for x in vs)}]/mut={int(with_mut)}', 'enum', vs, with_mut)); n += 1
            for _ in range(6):
                vs = [rng.choice(specs) for _ in range(rng.randint(1, 3))]
                mods.append(emit(f'm{n:04d}', f'enum[{";".join(sid(x) for x in vs)}]/mut={int(with_mut)}', 'enum', vs, with_mut)); n += 1
            # wide tuple / named variants (4 and 5 fields): the marker at every position, so that `..` on either side and counted wildcards show
            for nf in (4, 5):
                for dpos in range(nf):
                    for vk in (('tuple', 'named') if (dpos + nf) % 2 == 0 else ('tuple',)):
                        sp = (vk, nf, dpos, (dpos + 2) % nf if with_mut else 0, 'val', False)
                        other = specs[(dpos * 7 + nf) % len(specs)]
                        vs = [other, sp] if dpos % 2 else [sp, other]
                        mods.append(emit(f'm{n:04d}', f'enum[{";".join(sid(x) for x in vs)}]/mut={int(with_mut)}/wide', 'enum', vs, with_mut)); n += 1
            # single-variant enums (an irrefutable-pattern shortcut is possible there): every spec with 2+ fields whose marker is not on field 0
            for i, sp in enumerate(specs):
                if i % 3 == (1 if with_mut else 0) or '.m0' in sid(sp) or sid(sp)[1] == '1':
                    continue
                mods.append(emit(f'm{n:04d}', f'enum[{sid(sp)}]/mut={int(with_mut)}/single variant', 'enum', [sp], with_mut)); n += 1
        else:
            for i, sp in enumerate(specs):
                mods.append(emit(f'm{n:04d}', f'struct[{sid(sp)}]/mut={int(with_mut)}', 'struct', [sp], with_mut)); n += 1
                for pos in range(3):
                    other = specs[(i * 7 + 3 + pos) % len(specs)]
                    third = specs[(i * 11 + 5 + pos) % len(specs)]
                    vs = [other, third]
                    vs.insert(pos, sp)
                    mods.append(emit(f'm{n:04d}', f'enum[{";".join(sid(x) for x in vs)}]/mut={int(with_mut)}', 'enum', vs, with_mut)); n += 1
                mods.append(emit(f'm{n:04d}', f'enum[{sid(sp)}]/mut={int(with_mut)}', 'enum', [sp], with_mut)); n += 1
            for _ in range(40):
                vs = [rng.choice(specs) for _ in range(rng.randint(1, 3))]
                mods.append(emit(f'm{n:04d}', f'enum[{";".join(sid(x) for x in vs)}]/mut={int(with_mut)}', 'enum', vs, with_mut)); n += 1
    return mods


RULE = ('one config = struct or enum (1-3 variants) whose variants are drawn from {named, tuple} x 1..3 fields x every Deref marker position x every type-compatible DerefMut marker position '
        'x designated field type {u8, &u8, &&u8, &mut u8} x single-field shortcut with/without marker; the value (variant, all fields) and the written byte are arbitrary. '
        'Pointer identity is asserted, so a neighbour field of the same value cannot pass. Non-trivial = all harnesses passed with their reachability witness SATISFIED.')
BOUNDS = dict(max_fields='3; plus 4- and 5-field variants with the marker at every position', max_variants=3, target='u8', outside=['generic targets', '>3 fields/variants'])
ASSUME = ['Kani 0.68 / CBMC 6.11 / CaDiCaL; rustc nightly-2026-08-21 x86_64 dev profile', 'reference-typed fields point into 4-element statics',
          'oracle (designated field address, snapshot of all fields) written from the config by vk/p_c09.py']


def main(tier, seed, keep=False):
    from .runner import run_e1
    return run_e1('C09', tier, seed, gen(tier, seed), RULE, BOUNDS, ASSUME, keep=keep)
