"""C10 — Into returns the designated field for every requested target type."""
import itertools
import random
from .model import F, V, T, render_type, pattern, any_fn, variant_index_fn
from .runner import Harness, Module
from . import shapes as S

FUNCTIONS = ['<T as ::core::convert::Into<U>>::into for every requested U (educe expansion, struct and enum)']
FT = ['u8', 'u16', 'u32']
WIDTH = {'u8': 1, 'u16': 2, 'u32': 4}
MASK = {'u8': '0x5a', 'u16': '0x1234', 'u32': '0x00c0ffee', 'Wr': '0x0badf00d'}
TARGET_SETS = [['u32'], ['u16', 'u32'], ['u8', 'u16', 'u32', 'Wr'], ['Wr'], ['u32', 'Wr'], ['u8'], ['u16', 'Wr']]

PRE = '''#[derive(Clone, Copy, PartialEq, Eq, Debug)]
pub struct Wr(pub u32);
impl From<u8> for Wr { fn from(v: u8) -> Self { Wr(v as u32 + 1000) } }
impl From<u16> for Wr { fn from(v: u16) -> Self { Wr(v as u32 + 100000) } }
impl From<u32> for Wr { fn from(v: u32) -> Self { Wr(v.wrapping_add(7)) } }
pub fn m_u8<X: Into<u8>>(v: X) -> u8 { v.into() ^ 0x5a }
pub fn m_u16<X: Into<u16>>(v: X) -> u16 { v.into() ^ 0x1234 }
pub fn m_u32<X: Into<u32>>(v: X) -> u32 { v.into() ^ 0x00c0ffee }
pub fn m_Wr<X: Into<Wr>>(v: X) -> Wr { Wr(v.into().0 ^ 0x0badf00d) }
'''


def convertible(ft, tgt):
    if tgt == 'Wr':
        return True
    return WIDTH[ft] <= WIDTH[tgt]


def designate(ftys, targets, rot):
    """-> {target: (index, marker?, method?)} or None if impossible; deterministic in rot"""
    n = len(ftys)
    out = {}
    for ti, tgt in enumerate(targets):
        cands = [i for i in range(n) if convertible(ftys[i], tgt)]
        if not cands:
            return None
        same = [i for i in range(n) if ftys[i] == tgt]
        r = rot + ti
        method = (r % 3 == 1)
        if n == 1:
            out[tgt] = (0, (r % 2 == 1) or method, method)
            continue
        if len(same) == 1 and r % 3 == 0:
            out[tgt] = (same[0], False, False)   # unique same-typed field, no marker
            continue
        i = cands[r % len(cands)]
        out[tgt] = (i, True, method)
    return out


def build_variant(k, vk, ftys, targets, rot):
    des = designate(ftys, targets, rot)
    if des is None:
        return None
    fields = []
    for i, ft in enumerate(ftys):
        into = []
        for tgt in targets:
            idx, marker, method = des[tgt]
            if idx == i and marker:
                e = {'ty': tgt}
                if method:
                    e['method'] = f'm_{tgt}'
                into.append(e)
        a = {'Into': into} if into else {}
        f = F(ft, S.FNAMES[i] if vk == 'named' else None, **a)
        fields.append(f)
    v = V(S.VNAMES[k], vk, fields)
    v.des = des
    return v


def oracle(t, targets):
    s = ''
    for tgt in targets:
        arms = ''
        for v in t.variants:
            idx, marker, method = v.des[tgt]
            ft = v.fields[idx].ty
            if method:
                e = f'm_{tgt}(a{idx})'
            elif ft == tgt:
                e = f'a{idx}'
            else:
                e = f'<{tgt} as From<{ft}>>::from(a{idx})'
            arms += f'        {pattern(t, v, "a")} => {e},\n'
        s += f'pub fn oracle_{tgt}(x: Ty) -> {tgt} {{\n    match x {{\n{arms}    }}\n}}\n'
    return s


def emit(modname, cfgid, kind, variants, targets, sp=None, pre='', order=None, xf=None):
    tl = [('Into', {'ty': tgt}) for tgt in (order or targets)]
    t = T(kind, 'Ty', variants, tl)
    t.extra_attrs = '#[derive(Clone, Copy)]\n'
    if xf:
        xf(t)
    body = pre + PRE + render_type(t, sp) + any_fn(t) + variant_index_fn(t) + oracle(t, targets)
    hs = []
    for tgt in targets:
        h = Harness(f'h_into_{tgt}', covers=['reached'])
        body += h.attrs() + f'''pub fn h_into_{tgt}() {{
    let x = anyv();
    let want = oracle_{tgt}(x);
    let got: {tgt} = Into::<{tgt}>::into(x);
    kani::cover!(true, "reached");
    assert!(got == want, "into() did not return the designated field (through its method / unchanged / Into)");
}}
'''
        hs.append(h)
    sample = dict(type_definition=render_type(t, sp), oracle=oracle(t, targets))
    return Module(modname, cfgid, body, hs, sample=sample, functions=FUNCTIONS)


def reference_modules(start):
    """reference-typed fields and targets: `&'static u8` must be told apart from `u8` when looking for the unique same-typed field"""
    decl = '''pub fn narrow(v: u16) -> u8 { (v as u8) ^ 0x33 }
#[derive(Educe)]
#[educe(Into(u8), Into(&'static u8))]
#[derive(Clone, Copy)]
pub enum Ty {
    Alpha { a: u8, r: &'static u8, pad: u16 },
    Beta(&'static u8, u8),
    Gamma { #[educe(Into(&'static u8))] p: &'static u8, q: &'static u8, #[educe(Into(u8, method(narrow)))] w: u16, v: u8 },
}
pub fn anyv() -> Ty {
    match kani::any::<u8>() % 3 {
        0 => Ty::Alpha { a: Sym::sym(), r: Sym::sym(), pad: Sym::sym() },
        1 => Ty::Beta(Sym::sym(), Sym::sym()),
        _ => Ty::Gamma { p: Sym::sym(), q: Sym::sym(), w: (kani::any::<u8>() as u16), v: Sym::sym() },
    }
}
'''
    h1 = Harness('h_into_u8', covers=['reached'])
    h2 = Harness('h_into_ref', covers=['reached'])
    body = PRE + decl + h1.attrs() + '''pub fn h_into_u8() {
    let x = anyv();
    let want: u8 = match x { Ty::Alpha { a, .. } => a, Ty::Beta(_, b) => b, Ty::Gamma { w, .. } => narrow(w) };
    let got: u8 = Into::<u8>::into(x);
    kani::cover!(true, "reached");
    assert!(got == want, "Into<u8> did not return the designated field");
}
''' + h2.attrs() + '''pub fn h_into_ref() {
    let x = anyv();
    let want: *const u8 = match x { Ty::Alpha { r, .. } => r, Ty::Beta(r, _) => r, Ty::Gamma { p, .. } => p };
    let got: &'static u8 = Into::<&'static u8>::into(x);
    kani::cover!(true, "reached");
    assert!(got as *const u8 == want, "Into<&u8> did not return the designated reference field");
}
'''
    mods = [Module(f'm{start:04d}', "enum with u8 and &'static u8 fields, targets u8 and &'static u8 (unique same-typed, marker among two references, method on a u16 field)", body, [h1, h2],
                   sample=dict(type_definition=decl[:500]), functions=FUNCTIONS)]
    # the same request with the reference target written with an elided lifetime (`Into(&u8)`), at type level and in the field marker:
    # educe reads any `&T` target as `&'static T`, so both spellings must select the same fields
    body2 = body.replace("#[educe(Into(u8), Into(&'static u8))]", '#[educe(Into(u8), Into(&u8))]').replace("#[educe(Into(&'static u8))] p:", '#[educe(Into(&u8))] p:')
    assert body2 != body
    mods.append(Module(f'm{start + 1:04d}', "the same enum with the reference target spelled `&u8` (elided lifetime) at type level and in the field marker", body2, [h1, h2],
                       sample=dict(type_definition=decl[:200]), functions=FUNCTIONS))
    # reference targets that need parentheses: `&'static (dyn A + B)`; the key built for the target must survive printing and re-parsing
    pdecl = '''use core::fmt::Debug;
#[derive(Educe)]
#[educe(Into(&'static (dyn Debug + Send + Sync)), Into(u8))]
#[derive(Clone, Copy)]
pub struct Pt { pub a: u8, pub d: &'static (dyn Debug + Send + Sync), pub pad: u16 }
#[derive(Educe)]
#[educe(Into(&'static (dyn Debug + Send + Sync)))]
#[derive(Clone, Copy)]
pub enum Pe { A(u16, #[educe(Into(&'static (dyn Debug + Send + Sync)))] &'static (dyn Debug + Send + Sync)), B { d: &'static (dyn Debug + Send + Sync) } }
pub static P0: u8 = 7;
pub static P1: u16 = 9;
'''
    hp = Harness('h_into_paren', covers=['reached'])
    pbody = PRE + pdecl + hp.attrs() + '''pub fn h_into_paren() {
    let first: bool = kani::any();
    let d: &'static (dyn Debug + Send + Sync) = if first { &P0 } else { &P1 };
    let x = Pt { a: Sym::sym(), d, pad: Sym::sym() };
    let got: &'static (dyn Debug + Send + Sync) = Into::into(x);
    kani::cover!(true, "reached");
    assert!(got as *const (dyn Debug + Send + Sync) as *const u8 == d as *const (dyn Debug + Send + Sync) as *const u8, "Into<&(dyn ..)> did not return the designated reference field");
    let b: u8 = Into::into(x);
    assert!(b == x.a);
    let e = if first { Pe::A(Sym::sym(), d) } else { Pe::B { d } };
    let got2: &'static (dyn Debug + Send + Sync) = Into::into(e);
    assert!(got2 as *const (dyn Debug + Send + Sync) as *const u8 == d as *const (dyn Debug + Send + Sync) as *const u8, "enum Into<&(dyn ..)>");
}
'''
    mods.append(Module(f'm{start + 3:04d}', "struct / enum with a `&'static (dyn Debug + Send + Sync)` field and target (parenthesised trait-object reference)", pbody, [hp],
                       sample=dict(type_definition=pdecl[:300]), functions=FUNCTIONS))
    body3 = body.replace("#[educe(Into(u8), Into(&'static u8))]", '#[educe(Into(&u8), Into(u8))]')
    mods.append(Module(f'm{start + 2:04d}', "the same enum with `&u8` at type level only (field marker `&'static u8`), targets in the other order", body3, [h1, h2],
                       sample=dict(type_definition=decl[:200]), functions=FUNCTIONS))
    return mods


def vid(ftys, des, targets):
    return '(' + ','.join(ftys) + ')' + ''.join(f'[{t}<-{des[t][0]}{"!" if des[t][1] else ""}{"m" if des[t][2] else ""}]' for t in targets)


def gen(tier, seed):
    mods = []
    n = 0
    lists = [list(x) for k in (1, 2, 3) for x in itertools.product(FT, repeat=k)]
    rng = random.Random(seed * 997 + 11)
    combos = []
    for li, ftys in enumerate(lists):
        for ti, targets in enumerate(TARGET_SETS):
            for rot in range(3):
                combos.append((ftys, targets, rot))
    if tier == 'quick':
        picked = combos[::9][:60] + rng.sample(combos, 12)
    else:
        picked = combos
    for ci, (ftys, targets, rot) in enumerate(picked):
        vk = ('named', 'tuple')[ci % 2]
        v0 = build_variant(0, vk, ftys, targets, rot)
        if v0 is None:
            continue
        if ci % 3 == 0:
            mods.append(emit(f'm{n:04d}', f'struct{vid(ftys, v0.des, targets)}', 'struct', [v0], targets, order=targets[::-1] if ci % 2 else None)); n += 1
            continue
        # enum: add one or two more variants with their own designation
        vs = [v0]
        for k in (1, 2)[: 1 + ci % 2]:
            for attempt in range(20):
                f2 = lists[(ci * 5 + k * 17 + attempt * 3) % len(lists)]
                v = build_variant(k, ('tuple', 'named')[(ci + k) % 2], f2, targets, rot + k + attempt)
                if v is not None:
                    vs.append(v)
                    break
        pos = ci % len(vs)
        vs = vs[pos:] + vs[:pos]
        for k, v in enumerate(vs):
            v.name = S.VNAMES[k]
        cid = 'enum' + ';'.join(vid([f.ty for f in v.fields], v.des, targets) for v in vs)
        mods.append(emit(f'm{n:04d}', cid, 'enum', vs, targets)); n += 1
    mods += reference_modules(n)
    n = len(mods)
    # a `&'static mut u8` target: the requested impl is `Into<&'static mut u8>` and no other (known finding: today `Into<&'static u8>` is emitted)
    decl = '''#[derive(Educe)]
#[educe(Into(&'static mut u8))]
pub struct Ty(pub &'static mut u8, pub u16);
'''
    h = Harness('h_into_mut', unwind=4, covers=['reached'])
    body = decl + h.attrs() + '''pub fn h_into_mut() {
    let x = Ty(Sym::sym(), kani::any());
    let p = &*x.0 as *const u8;
    let r: &'static mut u8 = Into::into(x);
    kani::cover!(true, "reached");
    assert!(r as *mut u8 as *const u8 == p, "Into<&'static mut u8> does not return the designated field");
}
'''
    mods.append(Module(f'm{n:04d}', "struct (&'static mut u8, u16) with target &'static mut u8", body, [h], sample=dict(type_definition=decl), functions=FUNCTIONS, classes=['c10:mut-reference-target']))
    return mods


RULE = ('one config = struct or enum (1-3 variants), field types over {u8,u16,u32}^1..3, a target set out of ' + str(TARGET_SETS) +
        ', and per (variant, target) a designation {marker, sole field, unique same-typed field} with or without a per-target masked method; '
        'one harness per requested target, arbitrary value incl. variant. Non-trivial = every target harness passed with its witness SATISFIED.')
BOUNDS = dict(max_fields=3, max_variants=3, targets=['u8', 'u16', 'u32', 'Wr(u32)'],
              outside=['"for no other T" (a negative trait-resolution fact, rustc\'s verdict)', 'reference targets', 'generic targets (bounds: C11/C12)'])
ASSUME = ['Kani 0.68 / CBMC 6.11 / CaDiCaL; rustc nightly-2026-08-21 x86_64 dev profile',
          'methods m_T xor a per-target mask so a method registered for another target is visible; Wr::from adds a per-source-type offset so the conversion source is visible',
          'oracle written from the config by vk/p_c10.py']


def main(tier, seed, keep=False):
    from .runner import run_e1
    return run_e1('C10', tier, seed, gen(tier, seed), RULE, BOUNDS, ASSUME, keep=keep)
