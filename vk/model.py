"""Derive-request model: a type definition with structured educe attributes, rendered to Rust
under a chosen *spelling*.  Oracles are generated from this structure, never from educe's output.
"""
import copy
import random


class F:
    """A field. `a` maps trait name -> params dict (structured, spelling-independent):
       PartialEq/Eq/Hash: {'ignore':True} | {'method':'path'}
       PartialOrd/Ord:    {'ignore':True} | {'method':'path','rank':int} | {'rank':int}
       Debug:             {'ignore':True} | {'name':'x'|False} | {'method':'path'}
       Clone:             {'method':'path'}
       Default:           {'expr':'rust expr', 'lit':bool}
       Deref/DerefMut:    {}   (marker)
       Into:              [ {'ty':'u16','method':path?}, ... ]
    """

    def __init__(self, ty, name=None, **a):
        self.ty = ty
        self.name = name
        self.a = a

    def ident(self, idx):
        return self.name if self.name is not None else str(idx)


class V:
    def __init__(self, name, kind, fields=(), disc=None, **a):
        self.name = name
        self.kind = kind  # 'unit' | 'tuple' | 'named'
        self.fields = list(fields)
        self.disc = disc
        self.a = a


class T:
    def __init__(self, kind, name, variants, traits, generics='', where='', repr=None,
                 extra_attrs=''):
        self.kind = kind  # 'struct' | 'enum' | 'union'
        self.name = name
        self.variants = list(variants)
        self.traits = traits  # list of (trait, params-dict)
        self.generics = generics
        self.where = where
        self.repr = repr
        self.extra_attrs = extra_attrs

    def clone(self):
        return copy.deepcopy(self)

    def trait_names(self):
        return [t for t, _ in self.traits]

    def has(self, t):
        return t in self.trait_names()


class Spelling:
    """How structured parameters are written. mode: 'canon' (README style), or a seeded random
    choice among all documented spellings, or a forced index per parameter kind."""

    def __init__(self, mode='canon', seed=0, force=None, rand_kinds=()):
        self.mode = mode
        self.rng = random.Random(seed)
        self.force = force or {}
        self.rand_kinds = set(rand_kinds)
        self.used = {}
        self.nopts = {}

    def pick(self, kind, options):
        self.nopts[kind] = max(self.nopts.get(kind, 0), len(options))
        if kind in self.force:
            r = options[self.force[kind] % len(options)]
        elif self.mode == 'canon' and kind not in self.rand_kinds:
            r = options[0]
        else:
            r = self.rng.choice(options)
        self.used.setdefault(kind, set()).add(options.index(r))
        return r

    def perm(self, kind, items):
        items = list(items)
        if len(items) > 1:
            self.nopts[kind] = max(self.nopts.get(kind, 0), len(items))
        if self.mode == 'canon' and kind not in self.force and kind not in self.rand_kinds:
            return items
        if kind in self.force:
            k = self.force[kind] % max(1, len(items))
            return items[k:] + items[:k]
        self.rng.shuffle(items)
        return items


def _sp_bool_flag(name, sp):
    return sp.pick('flag', [f'{name}', f'{name} = true', f'{name}(true)'])


# PATH_REWRITE hook: when set (C14), bare method names are replaced by an equivalent multi-segment path with generic arguments
PATH_REWRITE = None
GENERIC_PATHS = {
    'eq_le': 'crate::support::sup::g::eq_le::<u8>', 'eq_half': 'crate::support::sup::g::eq_half::<u8>',
    'rev_cmp': 'crate::support::sup::g::rev_cmp::<u8>', 'rev_pcmp': 'crate::support::sup::g::rev_pcmp::<u8>',
    'half_cmp': 'crate::support::sup::g::half_cmp::<u8>', 'half_pcmp': 'crate::support::sup::g::half_pcmp::<u8>',
    'hash_m': 'crate::support::sup::g::hash_m::<u8, _>',
    'clone_m': 'crate::support::sup::g::clone_m::<Bump>', 'clone_mu': 'crate::support::sup::g::clone_m::<Unlawful>', 'clone_m8': 'crate::support::sup::g::clone_m::<u8>',
}


def _sp_path(name, path, sp):
    if PATH_REWRITE:
        path = PATH_REWRITE.get(path, path)
    return sp.pick('path', [f'{name}({path})', f'{name} = {path}', f'{name} = "{path}"',
                            f'{name}("{path}")'])


def _sp_rank(r, sp):
    if r < 0:
        return sp.pick('rank', [f'rank = {r}', f'rank = "{r}"', f'rank("{r}")'])
    return sp.pick('rank', [f'rank = {r}', f'rank({r})', f'rank = "{r}"', f'rank("{r}")'])


def _sp_name(v, sp, key='name'):
    key = sp.pick('namekey', ['name', 'rename']) if key == 'name' else key
    if v is False:
        return sp.pick('namefalse', [f'{key} = false', f'{key}(false)', f'{key} = ""', f'{key}("")'])
    if v is True:
        return sp.pick('nametrue', [f'{key} = true', f'{key}(true)'])
    return sp.pick('nameid', [f'{key}({v})', f'{key} = {v}', f'{key} = "{v}"', f'{key}("{v}")'])


def _sp_bool(key, v, sp):
    s = 'true' if v else 'false'
    return sp.pick('boolval', [f'{key} = {s}', f'{key}({s})'])


def _sp_expr(e, sp):
    key = sp.pick('exprkey', ['expression', 'expr'])
    return sp.pick('exprform', [f'{key} = {e}', f'{key}({e})'])


def _sp_bound(b, sp):
    # b: False | '*' | 'T: X, U: Y' | True(auto; omitted)
    if b is False:
        return sp.pick('boundfalse', ['bound = false', 'bound(false)', 'bound = ""', 'bound("")'])
    if b == '*':
        return 'bound(*)'
    return sp.pick('boundlist', [f'bound({b})', f'bound = "{b}"', f'bound("{b}")'])


def render_params(trait, p, level, sp):
    """-> the text after the trait name: '', ' = false', '(a, b)'"""
    if trait == 'Into' and level == 'field':
        raise ValueError('Into field attrs rendered separately')
    if not p:
        return ''
    parts = []
    only_ignore = set(p.keys()) == {'ignore'} and p['ignore'] is True
    if only_ignore and level == 'field' and trait in ('PartialEq', 'Eq', 'PartialOrd', 'Ord', 'Hash', 'Debug'):
        return sp.pick('ignoreform', ['(' + _sp_bool_flag('ignore', sp) + ')', ' = false'])
    if set(p.keys()) == {'ignore'} and p['ignore'] is False and level == 'field' and trait in ('PartialEq', 'Eq', 'PartialOrd', 'Ord', 'Hash', 'Debug'):
        # explicitly *not* ignored: the boolean's value matters, not its presence
        return sp.pick('notignoreform', ['(ignore = false)', '(ignore(false))', ' = true'])
    if trait == 'Debug' and set(p.keys()) == {'name'} and isinstance(p['name'], str):
        # Trait = X shorthand for a (re)name; `= false` is not a name at type/variant level and
        # means ignore at field level, so only identifiers take the short form
        v = p['name']
        long = '(' + _sp_name(v, sp) + ')'
        short = sp.pick('nameid_short', [f' = {v}', f' = "{v}"'])
        return sp.pick('nameshort', [long, short])
    if trait == 'Default' and level == 'field' and p and set(p.keys()) <= {'expr', 'lit'}:
        long = '(' + _sp_expr(p['expr'], sp) + ')'
        return sp.pick('defshort', [long, f" = {p['expr']}"])
    for k in p:
        v = p[k]
        if k == 'unsafe':
            continue
        if k == 'ignore':
            if v:
                parts.append(_sp_bool_flag('ignore', sp))
            elif v is False:
                parts.append(sp.pick('ignorefalse', ['ignore = false', 'ignore(false)']))
        elif k == 'method':
            parts.append(_sp_path('method', v, sp))
        elif k == 'rank':
            parts.append(_sp_rank(v, sp))
        elif k == 'name':
            parts.append(_sp_name(v, sp))
        elif k == 'named_field':
            parts.append(_sp_bool('named_field', v, sp))
        elif k == 'expr':
            parts.append(_sp_expr(v, sp))
        elif k == 'lit':
            pass
        elif k == 'new':
            if v:
                parts.append(_sp_bool_flag('new', sp))
            elif v is False:
                parts.append(sp.pick('newfalse', ['new = false', 'new(false)']))
        elif k == 'bound':
            parts.append(_sp_bound(v, sp))
        else:
            raise ValueError(k)
    parts = sp.perm('paramorder', parts)
    if p.get('unsafe'):
        parts = ['unsafe'] + parts
    if not parts:
        return ''
    return '(' + ', '.join(parts) + ')'


def render_into_field(lst, sp):
    out = []
    for e in lst:
        if e.get('method'):
            out.append(f"Into({e['ty']}, {_sp_path('method', e['method'], sp)})")
        else:
            out.append(f"Into({e['ty']})")
    return out


def render_attr_list(items, sp, indent):
    """items: list of 'Trait...' strings -> one or several #[educe(..)] lines, optionally interleaved with attributes that
    are not educe's (doc comments, lint attributes): the scanners must skip those wherever they stand"""
    if not items:
        return ''
    items = sp.perm('traitorder', items)
    style = sp.pick('grouping', ['one', 'split'])
    if style == 'one' or len(items) == 1:
        lines = [f'{indent}#[educe({", ".join(items)})]\n']
    else:
        lines = [f'{indent}#[educe({it})]\n' for it in items]
    foreign = sp.pick('foreign', ['none', 'doc-before', 'lint-before-doc-after', 'between'])
    if foreign == 'doc-before':
        lines = [f'{indent}/// a documented item\n'] + lines
    elif foreign == 'lint-before-doc-after':
        lines = [f'{indent}#[allow(dead_code)]\n'] + lines + [f'{indent}/// documented after the educe attribute\n']
    elif foreign == 'between':
        out = [f'{indent}#[cfg_attr(all(), allow(unused))]\n']
        for l in lines:
            out += [l, f'{indent}/// between\n']
        lines = out
    return ''.join(lines)


def render_level(a, level, sp, indent):
    items = []
    for trait, p in a.items():
        if trait == 'Into' and level == 'field':
            items.extend(render_into_field(p, sp))
        else:
            items.append(trait + render_params(trait, p, level, sp))
    return render_attr_list(items, sp, indent)


def render_fields(v, sp, indent, is_union=False):
    if v.kind == 'unit':
        return ''
    lines = []
    for i, f in enumerate(v.fields):
        at = render_level(f.a, 'field', sp, indent + '    ')
        if v.kind == 'named':
            lines.append(f'{at}{indent}    {"pub " if indent == "" else ""}{f.name}: {f.ty},\n')
        else:
            lines.append(f'{at}{indent}    {"pub " if indent == "" else ""}{f.ty},\n')
    body = ''.join(lines)
    if v.kind == 'named':
        return ' {\n' + body + indent + '}'
    return '(\n' + body + indent + ')'


TYPE_WRAP = None   # optional hook: fn(decl_text, t) -> text (used by C19 to put the derive site into a hostile module)


_AUTO = [0]


_WRAPS = [0]


def generic_header_wrap(decl, t):
    """TYPE_WRAP hook: the same request as a generic type — `struct TyG<G, const N: usize> where G: Copy` with the first u8
    field of type G — instantiated at <u8, 3> through a type alias, so the harness and oracle are unchanged while educe has
    to carry type / const parameters, a where-clause and an automatic bound through the impl header."""
    import re as _re
    name = t.name
    m = _re.search(r'pub (struct|enum) ' + name + r'\b', decl)
    if not m or t.generics:
        return decl
    head = decl[:m.start()]
    rest = decl[m.end():]
    kind = m.group(1)
    # first plain `u8` field becomes `G`
    rest2, n = _re.subn(r'(\b(?:pub )?(?:\w+: )?)u8,', lambda mm: mm.group(1) + 'G,', rest, count=1)
    if n == 0:
        return decl
    if kind == 'struct' and rest2.lstrip().startswith('('):
        return decl     # a tuple struct cannot be constructed through a type alias
    # every other wrapped request spells the where-clause the way rustfmt does: with a trailing comma
    _WRAPS[0] += 1
    wh = 'where G: Copy,' if _WRAPS[0] % 2 else 'where G: Copy'
    body = f'pub {kind} {name}G<G, const N: usize> {wh}' + rest2
    return head + body + f'pub type {name} = {name}G<u8, 3>;\n'


def render_type(t, sp=None):
    if sp is None:
        # no spelling requested: canonical spelling, but rotate where attributes foreign to educe stand
        if not hasattr(t, '_auto_sp'):
            _AUTO[0] += 1
            t._auto_sp = _AUTO[0] % 4
        sp = Spelling(force={'foreign': t._auto_sp})
    s = _render_type(t, sp)
    if TYPE_WRAP is not None:
        return TYPE_WRAP(s, t)
    return s


def _render_type(t, sp=None):
    sp = sp or Spelling()
    out = '#[derive(Educe)]\n'
    items = []
    for trait, p in t.traits:
        if trait == 'Into':
            # type-level Into(T[, bound..]) : p = {'ty':..., 'bound':...}
            s = f"Into({p['ty']}"
            if 'bound' in p:
                s += ', ' + _sp_bound(p['bound'], sp)
            s += ')'
            items.append(s)
        else:
            items.append(trait + render_params(trait, p, 'type', sp))
    out += render_attr_list(items, sp, '')
    if t.repr:
        out += f'#[repr({t.repr})]\n'
    out += t.extra_attrs
    g = t.generics
    wh = f' where {t.where}' if t.where else ''
    if t.kind == 'struct':
        v = t.variants[0]
        if v.kind == 'unit':
            out += f'pub struct {t.name}{g}{wh};\n'
        elif v.kind == 'tuple':
            out += f'pub struct {t.name}{g}{render_fields(v, sp, "")}{wh};\n'
        else:
            out += f'pub struct {t.name}{g}{wh}{render_fields(v, sp, "")}\n'
    elif t.kind == 'union':
        v = t.variants[0]
        out += f'pub union {t.name}{g}{wh}{render_fields(v, sp, "", True)}\n'
    else:
        out += f'pub enum {t.name}{g}{wh} {{\n'
        for v in t.variants:
            out += render_level(v.a, 'variant', sp, '    ')
            d = f' = {v.disc}' if v.disc is not None else ''
            out += f'    {v.name}{render_fields(v, sp, "    ")}{d},\n'
        out += '}\n'
    return out


# ------------------------------------------------------------------ helpers for oracles

def binders(v, prefix):
    """names bound for each field of variant v in a pattern, e.g. a0,a1 / named -> x: a0"""
    return [f'{prefix}{i}' for i in range(len(v.fields))]


def pattern(t, v, prefix, by_ref=True):
    """A pattern matching variant v of type t and binding every field to prefix<i>."""
    path = t.name if t.kind == 'struct' else f'{t.name}::{v.name}'
    bs = binders(v, prefix)
    if v.kind == 'unit':
        return path
    if v.kind == 'tuple':
        return f'{path}({", ".join(bs)})'
    return path + ' { ' + ', '.join(f'{f.name}: {b}' for f, b in zip(v.fields, bs)) + ' }'


def construct(t, v, exprs):
    path = t.name if t.kind == 'struct' else f'{t.name}::{v.name}'
    if v.kind == 'unit':
        return path
    if v.kind == 'tuple':
        return f'{path}({", ".join(exprs)})'
    return path + ' { ' + ', '.join(f'{f.name}: {e}' for f, e in zip(v.fields, exprs)) + ' }'


def any_fn(t, fname='anyv', tyargs=''):
    """fn anyv() -> T : arbitrary inhabitant; the solver also picks the variant."""
    ty = t.name + tyargs
    n = len(t.variants)
    if t.kind == 'struct':
        v = t.variants[0]
        lets = ''.join(f'    let f{i}: {f.ty} = Sym::sym();\n' for i, f in enumerate(v.fields))
        return (f'pub fn {fname}() -> {ty} {{\n{lets}    '
                f'{construct(t, v, [f"f{i}" for i in range(len(v.fields))])}\n}}\n')
    if n == 0:
        return ''
    arms = ''
    for k, v in enumerate(t.variants):
        lets = ''.join(f'let f{i}: {f.ty} = Sym::sym(); ' for i, f in enumerate(v.fields))
        pat = str(k) if k < n - 1 else '_'
        arms += f'        {pat} => {{ {lets}{construct(t, v, [f"f{i}" for i in range(len(v.fields))])} }}\n'
    if n == 1:
        v = t.variants[0]
        lets = ''.join(f'    let f{i}: {f.ty} = Sym::sym();\n' for i, f in enumerate(v.fields))
        return (f'pub fn {fname}() -> {ty} {{\n{lets}    '
                f'{construct(t, v, [f"f{i}" for i in range(len(v.fields))])}\n}}\n')
    return (f'pub fn {fname}() -> {ty} {{\n    let sel: u8 = kani::any();\n    kani::assume(sel < {n});\n'
            f'    match sel {{\n{arms}    }}\n}}\n')


def variant_index_fn(t, fname='vidx', tyargs=''):
    ty = t.name + tyargs
    if t.kind == 'struct':
        return f'pub fn {fname}(_v: &{ty}) -> usize {{ 0 }}\n'
    arms = ''
    for k, v in enumerate(t.variants):
        p = f'{t.name}::{v.name}' + {'unit': '', 'tuple': '(..)', 'named': ' { .. }'}[v.kind]
        arms += f'        {p} => {k},\n'
    if not t.variants:
        return f'pub fn {fname}(v: &{ty}) -> usize {{ match *v {{}} }}\n'
    return f'pub fn {fname}(v: &{ty}) -> usize {{\n    match v {{\n{arms}    }}\n}}\n'
