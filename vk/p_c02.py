"""C02 — PartialEq is exactly field-wise equality over the compared fields."""
from .model import F, V, T, Spelling, render_type, pattern, any_fn, binders
from .runner import Harness, Module
from . import shapes as S

CODES = ['p', 'q', 'i', 'm']
# code -> (rust type, attr params for the carrier trait)
FIELD = {
    'p': ('u8', None),
    'q': ('Mod4', None),
    'f': ('u8', {'ignore': False}),         # explicitly not ignored (`ignore = false`, `ignore(false)`, `Trait = true`)
    'n': ('Nan', None),                   # non-reflexive == (like a float NaN): a == a must follow the field
    'i': ('u8', {'ignore': True}),
    'm': ('u8', {'method': 'eq_le'}),
    'h': ('u8', {'method': 'eq_half'}),   # lawful method, for the law harness
    'd': ('PhantomData', None),           # a *user* type named like core's PhantomData (declared in the module): it carries data and is compared
    'e': ('::core::marker::PhantomData<u16>', {'method': 'ph_never'}),   # the real PhantomData with a method: the method decides
}
USER_PHANTOM = '''#[derive(PartialEq, Eq, Clone, Copy, Debug)]
pub struct PhantomData(pub u8);
impl Sym for PhantomData { fn sym() -> Self { PhantomData(kani::any()) } }
'''

FUNCTIONS = ['<T as ::core::cmp::PartialEq>::eq (educe expansion)', '<T as ::core::cmp::PartialEq>::ne (default via eq)']


def build(shape, carrier='PartialEq', with_eq=False, name='Ty', lawful=False):
    kind, vs = shape
    variants = []
    for k, (vk, fl) in enumerate(vs):
        fields = []
        for i, c in enumerate(fl):
            if lawful and c == 'm':
                c = 'h'
            both = c == 'x'      # `ignore` and `method` on one field: ignored (the method must never be consulted)
            if both:
                c = 'i'
            ty, p = FIELD[c]
            if both:
                p = dict(p, method='eq_le')
            a = {}
            if p is not None:
                a[carrier] = dict(p)
            f = F(ty, S.fname(i, k, len(fl)) if vk == 'named' else None, **a)
            f.code = c
            fields.append(f)
        variants.append(V(S.VNAMES[k], vk, fields))
    traits = [('PartialEq', {})]
    if with_eq or carrier == 'Eq':
        traits.append(('Eq', {}))
    return T(kind, name, variants, traits)


def eq_term(f, a, b, deref=False):
    """the oracle's conjunct for one field"""
    c = getattr(f, 'code', 'p')
    if c == 'i':
        return None
    if c == 'm':
        return f'eq_le({a}, {b})'
    if c == 'h':
        return f'eq_half({a}, {b})'
    if c == 'e':
        return 'false'
    return f'(*{a} == *{b})'


def oracle_fn(t, fname='oracle_eq', tyargs=''):
    ty = t.name + tyargs
    arms = ''
    for v in t.variants:
        terms = []
        for i, f in enumerate(v.fields):
            e = eq_term(f, f'a{i}', f'b{i}')
            if e:
                terms.append(e)
        body = ' && '.join(terms) if terms else 'true'
        arms += f'        ({pattern(t, v, "a")}, {pattern(t, v, "b")}) => {body},\n'
    if t.kind == 'enum' and len(t.variants) > 1:
        arms += '        _ => false,\n'
    if t.kind == 'enum' and not t.variants:
        return f'pub fn {fname}(a: &{ty}, _b: &{ty}) -> bool {{ match *a {{}} }}\n'
    return f'pub fn {fname}(a: &{ty}, b: &{ty}) -> bool {{\n    match (a, b) {{\n{arms}    }}\n}}\n'


def has_compared(t):
    return any(getattr(f, 'code', 'p') != 'i' for v in t.variants for f in v.fields)


def emit(t, modname, cfgid, sp=None, pre='', law_t=None, classes=(), xf=None, irreflexive=False):
    """module for type t (already attributed).  law_t: twin with lawful methods for the laws."""
    if xf:
        xf(t)
        if law_t is not None:
            xf(law_t)
    body = pre + render_type(t, sp) + any_fn(t) + oracle_fn(t)
    # a compared field whose method always answers false makes the oracle unsatisfiable for that variant
    never = all(any(getattr(f, 'code', 'p') == 'e' for f in v.fields) for v in t.variants) and bool(t.variants)
    covers = [] if never else ['oracle eq']
    if len(t.variants) > 1 or has_compared(t):
        covers.append('oracle ne')
    body += Harness('h_eq', covers=covers + (['irreflexive value'] if irreflexive else [])).attrs()
    body += '''pub fn h_eq() {
    let a = anyv();
    let b = anyv();
    let o = oracle_eq(&a, &b);
    kani::cover!(o, "oracle eq");
    kani::cover!(!o, "oracle ne");
    assert!((a == b) == o, "eq differs from field-wise oracle");
    assert!((a != b) == !o, "ne is not the negation of the oracle");
    // the same object on both sides (a pointer-equality shortcut must not change the result)
    let oa = oracle_eq(&a, &a);
    assert!((a == a) == oa, "a == a by the same reference differs from the field-wise oracle");
    assert!((a != a) == !oa, "a != a by the same reference differs from the field-wise oracle");
IRREFLEXIVE}
'''.replace('IRREFLEXIVE', '    kani::cover!(!oa, "irreflexive value");\n' if irreflexive else '')
    if irreflexive:
        covers = covers + ['irreflexive value']
    hs = [Harness('h_eq', covers=covers)]
    if law_t is not None:
        lt = law_t
        body += 'pub mod law {\n    use super::*;\n' + _indent(render_type(lt, sp) + any_fn(lt)) + '}\n'
        body += Harness('h_laws', covers=['ab']).attrs()
        body += '''pub fn h_laws() {
    let a = law::anyv();
    let b = law::anyv();
    let c = law::anyv();
    assert!(a == a, "reflexive");
    assert!((a == b) == (b == a), "symmetric");
    kani::cover!(a == b && b == c, "ab");
    if a == b && b == c {
        assert!(a == c, "transitive");
    }
}
'''
        hs.append(Harness('h_laws', covers=['ab']))
    sample = dict(type_definition=render_type(t, sp), oracle=oracle_fn(t))
    return Module(modname, cfgid, body, hs, sample=sample, classes=classes, functions=FUNCTIONS)


def _indent(s):
    return ''.join('    ' + l + '\n' for l in s.splitlines())


def lawful_ok(shape):
    # Mod4 equality and eq_half are lawful; eq_le is replaced by eq_half in the twin
    return True


def configs(tier, seed):
    """-> list of (cfgid, shape, carrier, with_eq)"""
    out = []
    if tier == 'quick':
        shapes = S.quick_core(CODES) + S.seeded_extra(CODES, seed, 10)
    else:
        shapes = S.struct_shapes(CODES, 4) + S.enum_shapes_thorough(CODES) + S.four_variant_enums(CODES) + S.seeded_extra(CODES, seed, 60)
    for n, sh in enumerate(shapes):
        carrier, with_eq = [('PartialEq', False), ('PartialEq', True), ('Eq', True)][n % 3]
        out.append((f'{S.shape_id(sh)}/carrier={carrier}/eq={int(with_eq)}', sh, carrier, with_eq))
    return out


def special_modules(start):
    """generic struct instantiated at u8; empty enum (compiled, no values: trivial)."""
    mods = []
    t = T('struct', 'Ty', [V('Alpha', 'tuple', [F('G'), F('u8', **{'PartialEq': {'ignore': True}}), F('G')])],
          [('PartialEq', {})], generics='<G>')
    for f, c in zip(t.variants[0].fields, 'pip'):
        f.code = c
    body = render_type(t) + any_fn(t, tyargs='<u8>').replace(': G =', ': u8 =') + oracle_fn(t, tyargs='<u8>')
    body += Harness('h_eq', covers=['oracle eq', 'oracle ne']).attrs()
    body += '''pub fn h_eq() {
    let a = anyv();
    let b = anyv();
    let o = oracle_eq(&a, &b);
    kani::cover!(o, "oracle eq");
    kani::cover!(!o, "oracle ne");
    assert!((a == b) == o, "eq differs from field-wise oracle");
    assert!((a != b) == !o, "ne is not the negation of the oracle");
}
'''
    mods.append(Module(f'm{start:04d}', 'struct[T(G,i,G)]<G=u8>', body, [Harness('h_eq', covers=['oracle eq', 'oracle ne'])],
                       sample=dict(type_definition=render_type(t)), functions=FUNCTIONS))
    return mods


def gen(tier, seed, sp_factory=None):
    mods = []
    cfgs = configs(tier, seed)
    for n, (cfgid, sh, carrier, with_eq) in enumerate(cfgs):
        t = build(sh, carrier, with_eq)
        law = None
        if n % (2 if tier == 'quick' else 1) == 0 and any(v.fields for v in t.variants):
            law = build(sh, carrier, with_eq, lawful=True)
        sp = sp_factory(n) if sp_factory else None
        mods.append(emit(t, f'm{n:04d}', cfgid, sp=sp, law_t=law))
    # the same requests as generic types (type + const parameter, where-clause) instantiated through an alias
    from . import model
    model.TYPE_WRAP = model.generic_header_wrap
    try:
        for k, (sh, carrier, with_eq) in enumerate([(('struct', [('named', ['p', 'i', 'm'])]), 'PartialEq', False), (('enum', [('tuple', ['p', 'm', 'q']), ('named', ['i', 'p']), ('unit', [])]), 'Eq', True)]):
            mods.append(emit(build(sh, carrier, with_eq), f'm{len(mods):04d}', f'{S.shape_id(sh)}/carrier={carrier}/generic header <G, const N> where G: Copy at <u8, 3>'))
    finally:
        model.TYPE_WRAP = None
    # fields whose own == is not reflexive (NaN-like): no method anywhere, so that a pointer-identity shortcut
    # gated on "no custom method" is still exercised
    for sh in IRREFLEXIVE_SHAPES:
        mods.append(emit(build(sh, 'PartialEq', False), f'm{len(mods):04d}', f'{S.shape_id(sh)}/carrier=PartialEq/irreflexive field', irreflexive=True))
    for k, sh in enumerate(NOTIGN_SHAPES):
        for j in range(3):
            car = ['PartialEq', 'Eq'][(k + j) % 2]
            mods.append(emit(build(sh, car, car == 'Eq'), f'm{len(mods):04d}', f'{S.shape_id(sh)}/carrier={car}/explicitly not ignored #{j}', sp=Spelling(force={'notignoreform': j})))
    for k, sh in enumerate(SINGLE_M_SHAPES):
        car = ['PartialEq', 'Eq', 'PartialEq'][k]
        mods.append(emit(build(sh, car, car == 'Eq'), f'm{len(mods):04d}', f'{S.shape_id(sh)}/carrier={car}/single compared field with a method'))
    for k, sh in enumerate(BOTH_SHAPES):
        car = ['PartialEq', 'Eq', 'PartialEq'][k]
        mods.append(emit(build(sh, car, car == 'Eq'), f'm{len(mods):04d}', f'{S.shape_id(sh)}/carrier={car}/ignore+method on one field'))
    for k, sh in enumerate(LIBNAME_SHAPES):
        car = ['PartialEq', 'Eq', 'PartialEq', 'Eq'][k]
        mods.append(emit(build(sh, car, car == 'Eq'), f'm{len(mods):04d}', f'{S.shape_id(sh)}/carrier={car}/field types named PhantomData', pre=USER_PHANTOM))
    for k, sh in enumerate(S.ignore_run_shapes('p', 'q')):
        car = ['PartialEq', 'Eq'][k % 2]
        mods.append(emit(build(sh, car, car == 'Eq'), f'm{len(mods):04d}', f'{S.shape_id(sh)}/carrier={car}/runs of ignored fields'))
    for vk in ('tuple', 'named'):
        sh = ('struct', [(vk, ['p'] * S.WIDE)])
        mods.append(emit(build(sh, 'PartialEq', False), f'm{len(mods):04d}', f'{S.shape_id(sh)}/carrier=PartialEq/wide'))
    sh = ('enum', [('unit', []), ('tuple', ['p', 'i'] * 6 + ['p'])])
    mods.append(emit(build(sh, 'Eq', True), f'm{len(mods):04d}', f'{S.shape_id(sh)}/carrier=Eq/wide'))
    mods += special_modules(len(mods))
    decl, anyv, vidx = S.big_enum('PartialEq')
    hb = Harness('h_big', covers=['equal', 'unequal'])
    bbody = decl + anyv + vidx + hb.attrs() + '''pub fn h_big() {
    let a = anyv();
    let b = anyv();
    let o = match (&a, &b) { (Big::Last(x), Big::Last(y)) => x == y, _ => vidx(&a) == vidx(&b) };
    kani::cover!(o, "equal");
    kani::cover!(!o, "unequal");
    assert!((a == b) == o && (a != b) == !o, "== on a 261-variant enum differs from same-variant-and-payload");
}
'''
    mods.append(Module(f'm{len(mods):04d}', 'enum with 261 variants (V0..V259, Last(u8))', bbody, [hb], sample=dict(type_definition='enum Big { V0, .., V259, Last(u8) }'), functions=FUNCTIONS))
    from .runner import empty_enum_module
    for el, b in [('PartialEq', 'PartialEq'), ('PartialEq, Eq', 'PartialEq + Eq')]:
        mods.append(empty_enum_module(f'm{len(mods):04d}', el, b, FUNCTIONS))
    return mods


NOTIGN_SHAPES = [
    ('struct', [('named', ['f', 'i', 'p'])]),
    ('enum', [('tuple', ['f', 'f']), ('named', ['i', 'f']), ('unit', [])]),
]
# exactly one compared field, carrying a method, among ignored ones (single-field shortcuts must not forget the method)
SINGLE_M_SHAPES = [
    ('struct', [('named', ['i', 'm', 'i'])]),
    ('struct', [('tuple', ['m', 'i'])]),
    ('enum', [('tuple', ['i', 'm']), ('named', ['m', 'i', 'i']), ('unit', [])]),
]
BOTH_SHAPES = [
    ('struct', [('named', ['p', 'x', 'p'])]),
    ('struct', [('tuple', ['x', 'q'])]),
    ('enum', [('tuple', ['x', 'p']), ('named', ['m', 'x']), ('unit', [])]),
]
LIBNAME_SHAPES = [
    ('struct', [('named', ['i', 'd'])]),
    ('struct', [('tuple', ['d', 'p'])]),
    ('enum', [('tuple', ['d', 'i']), ('named', ['p', 'd']), ('unit', [])]),
    ('struct', [('named', ['p', 'e'])]),
]
IRREFLEXIVE_SHAPES = [
    ('struct', [('named', ['n', 'p'])]),
    ('struct', [('tuple', ['i', 'n'])]),
    ('enum', [('tuple', ['n', 'p']), ('named', ['i', 'n']), ('unit', [])]),
    ('enum', [('named', ['n'])]),
    ('enum', [('unit', []), ('tuple', ['n'])]),
]


RULE = ('one config = one derive request (shape x per-field {plain u8, plain Mod4, ignored, method} x carrier trait); '
        'inside a config nothing is sampled: both operands (and the triple for the laws) are arbitrary values incl. the variant, '
        'decided by CBMC/CaDiCaL. A config counts as non-trivial when every harness passed and every cover witness '
        '(oracle-equal pair, oracle-unequal pair, transitive chain) was SATISFIED.')
BOUNDS = dict(max_fields='3 (quick), 4 (thorough); plus 4-5 field runs of ignored fields and three 13-field shapes', max_variants='3 (quick), 4 (thorough)', field_types=['u8', 'Mod4', 'Nan (== not reflexive; 5 configs without any method)', 'a user type named PhantomData', 'core PhantomData<u16> with a method'], methods=['eq_le (asymmetric)', 'eq_half (lawful)'],
              outside=['>3 fields or variants', 'field types other than u8/Mod4/Nan', 'unions (C20)'])
ASSUME = ['Kani 0.68 / CBMC 6.11 / CaDiCaL; rustc nightly-2026-08-21 x86_64 dev profile',
          'oracle written from the config by vk/p_c02.py, never from the expansion',
          'instrumented field types (Mod4) and methods (eq_le, eq_half) are inputs chosen to make delegation observable']


def main(tier, seed, keep=False):
    from .runner import run_e1
    mods = gen(tier, seed)
    return run_e1('C02', tier, seed, mods, RULE, BOUNDS, ASSUME, keep=keep)
