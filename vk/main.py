"""Entry point: ./check <ID> --tier quick|thorough"""
import argparse
import importlib
import os
import sys



def main():
    ap = argparse.ArgumentParser()
    ap.add_argument('prop')
    ap.add_argument('--tier', default=os.environ.get('VERIF_TIER', 'quick'))
    ap.add_argument('--replay')
    ap.add_argument('--keep', action='store_true')
    a = ap.parse_args()
    seed = int(os.environ.get('VERIF_SEED', '0') or 0)
    prop = a.prop.upper()
    if a.replay:
        from . import runner
        sys.exit(runner.replay_path(a.replay))
    if prop == 'C17':
        from . import e4
        sys.exit(e4.main(a.tier, seed, keep=a.keep))
    if prop in ('C11', 'C12'):
        from . import e2
        sys.exit(e2.main(prop, a.tier, seed, keep=a.keep))
    mod = importlib.import_module('vk.' + ALL[prop])
    sys.exit(mod.main(a.tier, seed, keep=a.keep))


ALL = {
    'C02': 'p_c02',
    'C03': 'p_c03',
    'C04': 'p_c04',
    'C05': 'p_c05',
    'C06': 'p_c06',
    'C07': 'p_c07',
    'C08': 'p_c08',
    'C09': 'p_c09',
    'C10': 'p_c10',
    'C14': 'p_c14',
    'C15': 'p_c15',
    'C18': 'p_c18',
    'C19': 'p_c19',
    'C20': 'p_c20',
}

if __name__ == '__main__':
    try:
        main()
    except SystemExit:
        raise
    except BaseException as ex:     # an internal error of the machinery is never a verdict: exit 2, not 1
        import traceback
        traceback.print_exc()
        print(f'INCONCLUSIVE: internal error in the checker ({type(ex).__name__}: {ex}); no verdict')
        sys.exit(2)
