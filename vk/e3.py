"""E3 — feature-structure encoder for C18: every subset of the twelve trait features builds.

tools/cfgscan parses every module of /repo/src on each run and emits the module tree, item
definitions, `use` leaves and every path with the cfg stack in force at that point.  Twelve Booleans
(one per feature); for every reference r -> target t the query  cfg(r) AND NOT cfg(t) AND (some
feature on)  is given to z3: a model is a feature subset under which the crate refers to something
that is not compiled.  Further queries: cfg'd `let`s cover their uses, Trait variants / name-lookup
arms / dispatch blocks are gated by exactly their feature, the compile_error! guard is exactly "no
feature", imports are used whenever they are compiled.  Every model is replayed with a real
`cargo check` of that subset (warnings denied) before it is reported."""
import itertools
import copy
import json
import re
import os
import random
import shutil
import subprocess
import tempfile
import time

import z3

from .runner import VERIF, REPO, WORK, sh, load_known, copy_lock

FEATURES = ['Debug', 'Clone', 'Copy', 'PartialEq', 'Eq', 'PartialOrd', 'Ord', 'Hash', 'Default', 'Deref', 'DerefMut', 'Into']
FV = {f: z3.Bool('feature_' + f) for f in FEATURES}
OTHER = {}


def zcfg(c):
    if isinstance(c, list):
        return z3.And([zcfg(x) for x in c]) if c else z3.BoolVal(True)
    if 'feature' in c:
        f = c['feature']
        if f in FV:
            return FV[f]
        return OTHER.setdefault('feature:' + f, z3.Bool('feature_other_' + f))
    if 'any' in c:
        return z3.Or([zcfg(x) for x in c['any']]) if c['any'] else z3.BoolVal(False)
    if 'all' in c:
        return z3.And([zcfg(x) for x in c['all']]) if c['all'] else z3.BoolVal(True)
    if 'not' in c:
        return z3.Not(zcfg(c['not']))
    key = c.get('other', '?')
    if key.strip() in ('test', 'doc', 'docsrs', 'magiclen_educe_verif'):
        return z3.BoolVal(False)    # not set in a user's build
    return OTHER.setdefault(key, z3.Bool('cfg_' + ''.join(ch if ch.isalnum() else '_' for ch in key)))


def nm(s):
    return s[2:] if s.startswith('r#') else s


class Facts:
    def __init__(self, data):
        self.files = {tuple(f['module']): f for f in data['files'] if 'error' not in f}
        self.errors = [f for f in data['files'] if 'error' in f]
        self.modcfg = {(): z3.BoolVal(True)}
        self.moddecl = {}
        # effective cfg of modules, parent first
        for m in sorted(self.files, key=len):
            f = self.files[m]
            for d in f['mods']:
                child = m + (nm(d['name']),)
                self.moddecl.setdefault(child, []).append(zcfg(d['cfg']))
        for m in sorted(self.files, key=len):
            if m == ():
                continue
            decl = self.moddecl.get(m, [z3.BoolVal(True)])
            self.modcfg[m] = z3.And(self.modcfg.get(m[:-1], z3.BoolVal(True)), z3.Or(decl))
        # dead_code lint level: allowed if the module declaration (or an ancestor's) or the file says so
        self.mod_allow_dead = {(): bool(self.files.get((), {}).get('file_allow_dead'))}
        for m in sorted(self.files, key=len):
            f = self.files[m]
            for d in f['mods']:
                child = m + (nm(d['name']),)
                self.mod_allow_dead[child] = self.mod_allow_dead.get(m, False) or bool(d.get('allow_dead')) or bool(self.files.get(child, {}).get('file_allow_dead'))
        self.defs = {}
        self.imports = {}
        self.globs = {}
        self.variants = {}
        for m, f in self.files.items():
            d = {}
            for it in f['items']:
                if it.get('fn') is None and it['name']:
                    d.setdefault(nm(it['name']), []).append((it['kind'], zcfg(it['cfg'])))
            self.defs[m] = d
            imp, gl = {}, []
            for u in f['uses']:
                p = [nm(x) for x in u['path']]
                if u['name'] == '*':
                    gl.append((p, zcfg(u['cfg'])))
                else:
                    imp.setdefault(nm(u['name']), []).append((p, zcfg(u['cfg']), u['line']))
            self.imports[m] = imp
            self.globs[m] = gl
            for v in f['variants']:
                self.variants.setdefault((m, v['enum']), {}).setdefault(v['variant'], []).append(zcfg(v['cfg']))

    def is_module(self, m):
        return tuple(m) in self.files

    def resolve(self, M, segs, depth=0):
        """-> (cond, description) : cond = z3 formula "every crate-local thing this path names is compiled", or None if external"""
        if depth > 8 or not segs:
            return None
        segs = [nm(s) for s in segs]
        first = segs[0]
        conds = []
        if first == '::':
            return None
        if first == 'crate':
            cur, rest = (), segs[1:]
        elif first == 'self':
            cur, rest = tuple(M), segs[1:]
        elif first == 'super':
            cur, rest = tuple(M), list(segs)
            while rest and rest[0] == 'super':
                cur = cur[:-1]
                rest = rest[1:]
        else:
            M = tuple(M)
            if M + (first,) in self.files or first in self.defs.get(M, {}):
                cur, rest = M, segs
            elif first in self.imports.get(M, {}):
                alts = []
                for (p, c, ln) in self.imports[M][first]:
                    r = self.resolve(M, p + segs[1:], depth + 1)
                    if r is None:
                        alts.append(c)     # imported from an external crate: available whenever the import is compiled
                    else:
                        alts.append(z3.And(c, r[0]))
                return (z3.Or(alts), 'via import ' + first)
            else:
                alts = []
                for (p, c) in self.globs.get(M, []):
                    r = self.resolve(M, p + segs, depth + 1)
                    if r is not None:
                        alts.append(z3.And(c, r[0]))
                if alts:
                    return (z3.Or(alts), 'via glob import')
                return None
        if not rest:
            return (self.modcfg.get(cur, z3.BoolVal(True)), 'module ' + '::'.join(cur))
        conds.append(self.modcfg.get(cur, z3.BoolVal(True)))
        i = 0
        while i < len(rest):
            s = rest[i]
            if cur + (s,) in self.files:
                cur = cur + (s,)
                conds.append(self.modcfg[cur])
                i += 1
                continue
            d = self.defs.get(cur, {})
            if s in d:
                conds.append(z3.Or([c for k, c in d[s]]))
                kinds = {k for k, c in d[s]}
                if 'enum' in kinds and i + 1 < len(rest):
                    vs = self.variants.get((cur, s), {})
                    if rest[i + 1] in vs:
                        conds.append(z3.Or(vs[rest[i + 1]]))
                return (z3.And(conds), f'{"::".join(cur)}::{s}')
            if s in self.imports.get(cur, {}):
                alts = []
                for (p, c, ln) in self.imports[cur][s]:
                    r = self.resolve(cur, p + rest[i + 1:], depth + 1)
                    alts.append(c if r is None else z3.And(c, r[0]))
                conds.append(z3.Or(alts))
                return (z3.And(conds), f'{"::".join(cur)}::{s} (re-export)')
            alts = []
            for (p, c) in self.globs.get(cur, []):
                r = self.resolve(cur, p + rest[i:], depth + 1)
                if r is not None:
                    alts.append(z3.And(c, r[0]))
            if alts:
                conds.append(z3.Or(alts))
                return (z3.And(conds), f'{"::".join(cur)}::{s} (glob re-export)')
            # not found in a crate-local module: a name we cannot see (associated item, macro-generated)
            return (z3.And(conds), f'{"::".join(cur)} (then {s}: not modelled)')
        return (z3.And(conds), '::'.join(cur))


SOME = z3.Or([FV[f] for f in FEATURES])


def model_subset(model):
    return [f for f in FEATURES if z3.is_true(model.eval(FV[f], model_completion=True))]


def scan():
    exe = os.path.join(WORK, 'target-cfgscan', 'release', 'cfgscan')
    d = os.path.join(VERIF, 'tools', 'cfgscan')
    rc, out = sh(['cargo', 'build', '--release', '--offline', '--target-dir', os.path.join(WORK, 'target-cfgscan')], cwd=d, timeout=1200)
    if rc != 0:
        return None, out[-2000:]
    p = subprocess.run([exe, os.path.join(REPO, 'src')], stdout=subprocess.PIPE, stderr=subprocess.PIPE, text=True, timeout=300)
    if p.returncode != 0:
        return None, p.stderr[-2000:]
    return json.loads(p.stdout), ''


def build_queries(facts):
    """-> list of dict(kind, where, formula, what)"""
    qs = []
    for m, f in facts.files.items():
        eff = facts.modcfg.get(m, z3.BoolVal(True))
        local_by_fn = {}
        for b in f['bindings']:
            local_by_fn.setdefault(b.get('fn'), set()).add(b['name'])
        # 1a. use leaves
        for u in f['uses']:
            site = z3.And(eff, zcfg(u['cfg']))
            p = [nm(x) for x in u['path']]
            r = facts.resolve(m, p if u['name'] == '*' else p)
            if r is None:
                continue
            qs.append(dict(kind='use', where=f"{f['path']}:{u['line']}", what='use ' + '::'.join(p) + ' -> ' + r[1], formula=z3.And(site, z3.Not(r[0]), SOME)))
        # 1b. paths in items / bodies
        seen = set()
        for pth in f['paths']:
            segs = [nm(x) for x in pth['segments']]
            if pth.get('leading_colon'):
                continue
            if len(segs) == 1:
                n = segs[0]
                if n in local_by_fn.get(pth.get('fn'), set()) or n in ('self', 'Self', 'crate', 'super'):
                    continue
                if n not in facts.imports.get(m, {}) and n not in facts.defs.get(m, {}):
                    continue
            key = (tuple(segs), json.dumps(pth['cfg'], sort_keys=True))
            if key in seen:
                continue
            seen.add(key)
            r = facts.resolve(m, segs)
            if r is None:
                continue
            site = z3.And(eff, zcfg(pth['cfg']))
            qs.append(dict(kind='path', where=f"{f['path']}:{pth['line']}", what='::'.join(segs) + ' -> ' + r[1], formula=z3.And(site, z3.Not(r[0]), SOME)))
        # 1b. rejections are not feature-dependent inside a function: a diagnostic constructor (an item of a `panic` module) referred to
        #     under a statement-level cfg exists only for some feature subsets of its enclosing function, so the same input would be
        #     refused under some subsets and accepted under others
        for pth in f['paths']:
            segs = [nm(x) for x in pth['segments']]
            if 'panic' not in segs[:-1] or pth.get('fn') is None or pth.get('fn_cfg') is None:
                continue
            if f['path'] != 'lib.rs':
                # inside a trait's own (feature-gated) modules a rejection about the coupled partner trait legitimately exists only
                # when the partner's feature is on (ord/models/field_attribute.rs); the obligation is claimed for the shared entry point only
                continue
            fn_site = z3.And(eff, zcfg(pth['fn_cfg']))
            qs.append(dict(kind='rejection-gate', where=f"{f['path']}:{pth['line']}", diagnostic=segs[-1], fn=pth['fn'],
                           what=f"rejection `{'::'.join(segs)}` in fn {pth['fn']} is compiled only under some feature subsets of that function",
                           formula=z3.And(fn_site, z3.Not(zcfg(pth['cfg'])), SOME)))
        # 1c. `let mut x` whose every mutation site is feature-gated: under the subsets that compile none of them rustc warns `unused_mut`
        muts = {}
        for mu in f.get('mutations', []):
            muts.setdefault((mu.get('fn'), nm(mu['name'])), []).append(zcfg(mu['cfg']))
        for mi in f['macro_idents']:
            muts.setdefault((mi.get('fn'), nm(mi['name'])), []).append(zcfg(mi['cfg']))
        for b in f['bindings']:
            if not b.get('mut') or b.get('allow_unused'):
                continue
            sites = muts.get((b.get('fn'), nm(b['name'])))
            if not sites:
                continue      # never mutated anywhere the model can see: nothing feature-dependent to decide
            qs.append(dict(kind='unused-mut', where=f"{f['path']}:{b['line']}", what=f"`let mut {nm(b['name'])}` in fn {b.get('fn')} is mutated only under some feature subsets (unused_mut warning under the others)",
                           formula=z3.And(eff, zcfg(b['cfg']), z3.Not(z3.Or(sites)), SOME)))
        # 2. cfg'd lets cover their uses
        lets = {}
        for l in f['lets']:
            lets.setdefault((l.get('fn'), l['name']), []).append(l)
        for (fn, name), ls in lets.items():
            if not any(l['cfg'] for l in ls):
                continue
            defined = z3.Or([zcfg(l['cfg']) for l in ls])
            other_bind = [b for b in f['bindings'] if b.get('fn') == fn and b['name'] == name and not any(b['line'] in (l['line'], l.get('pat_line')) for l in ls)]
            if other_bind:
                continue   # also bound by a parameter / pattern: always defined
            for pth in f['paths']:
                if pth.get('fn') == fn and pth['segments'] == [name]:
                    site = z3.And(eff, zcfg(pth['cfg']))
                    qs.append(dict(kind='let', where=f"{f['path']}:{pth['line']}", what=f'local `{name}` used where no cfg-gated `let {name}` is compiled', formula=z3.And(site, z3.Not(defined), SOME)))
            for mi in f['macro_idents']:
                if mi.get('fn') == fn and mi['name'] == name:
                    site = z3.And(eff, zcfg(mi['cfg']))
                    qs.append(dict(kind='let', where=f"{f['path']}:{mi['line']}", what=f'local `{name}` used (inside a macro) where no cfg-gated `let {name}` is compiled', formula=z3.And(site, z3.Not(defined), SOME)))
        # 7. a parameter or local that is only referred to under some cfgs is unused (warning) under the others
        by_fn = {}
        for b in f['bindings']:
            if b['name'].startswith('_') or b.get('allow_unused') or b['name'] in ('self',):
                continue
            by_fn.setdefault((b.get('fn'), b['name']), []).append(b)
        for (fn, name), bs in by_fn.items():
            if fn is None:
                continue
            uses = [zcfg(p['cfg']) for p in f['paths'] if p.get('fn') == fn and p['segments'] == [name]]
            uses += [zcfg(mi['cfg']) for mi in f['macro_idents'] if mi.get('fn') == fn and mi['name'] == name]
            if not uses or all(not p_['cfg'] for p_ in f['paths'] if p_.get('fn') == fn and p_['segments'] == [name]) and not any(mi['cfg'] for mi in f['macro_idents'] if mi.get('fn') == fn and mi['name'] == name):
                continue     # used unconditionally (or never mentioned: a pattern the scanner cannot see) — nothing to decide
            used = z3.Or(uses)
            for b in bs:
                qs.append(dict(kind='unused-variable', where=f"{f['path']}:{b['line']}", what=f'`{name}` in fn {fn} is bound but only referred to under some feature subsets (unused-variable warning under the others)',
                               formula=z3.And(eff, zcfg(b['cfg']), z3.Not(used), SOME)))
        # 5. imports used whenever compiled (only for names that are referred to explicitly somewhere)
        for name, lst in facts.imports.get(m, {}).items():
            occ = [zcfg(p['cfg']) for p in f['paths'] if p['segments'] and nm(p['segments'][0]) == name]
            occ += [zcfg(mi['cfg']) for mi in f['macro_idents'] if mi['name'] == name]
            if not occ:
                continue    # used implicitly (trait methods) or re-exported: not decidable from paths; rustc's default build already vouches for it
            used = z3.Or(occ)
            for (p, c, ln) in lst:
                allow = any(it for it in f['items'] if False)
                qs.append(dict(kind='unused-import', where=f"{f['path']}:{ln}", what=f'import `{name}` compiled but never referred to', formula=z3.And(eff, c, z3.Not(used), SOME)))
    # 6. dead code: a free function or inherent associated function that is compiled under a subset in which nothing
    #    refers to it (and no allow(dead_code) covers it) makes the build warn
    refs = {}
    for m, f in facts.files.items():
        eff = facts.modcfg.get(m, z3.BoolVal(True))
        for pth in f['paths']:
            if pth['segments']:
                refs.setdefault(nm(pth['segments'][-1]), []).append(z3.And(eff, zcfg(pth['cfg'])))
        for mc in f.get('method_calls', []):
            refs.setdefault(nm(mc['name']), []).append(z3.And(eff, zcfg(mc['cfg'])))
        for mi in f['macro_idents']:
            refs.setdefault(nm(mi['name']), []).append(z3.And(eff, zcfg(mi['cfg'])))
        for u in f['uses']:
            if u['path']:
                refs.setdefault(nm(u['path'][-1]), []).append(z3.And(eff, zcfg(u['cfg'])))
    for m, f in facts.files.items():
        if facts.mod_allow_dead.get(m, False):
            continue
        eff = facts.modcfg.get(m, z3.BoolVal(True))
        cands = [(a['name'], a['cfg'], a['line'], f"{a['self_ty']}::{a['name']}") for a in f.get('assoc_fns', []) if not a['trait'] and not a['allow_dead']]
        cands += [(it['name'], it['cfg'], it['line'], it['name']) for it in f['items'] if it['kind'] == 'fn' and it.get('fn') is None and not it.get('allow_dead') and it['name'] not in ('main',)]
        for name, cfg, ln, label in cands:
            if m == () and name in ('educe_derive', 'verif_expand'):
                continue
            used = z3.Or(refs.get(nm(name), []))
            qs.append(dict(kind='dead-code', where=f"{f['path']}:{ln}", what=f'`{label}` is compiled but nothing that is compiled refers to it (dead_code warning)', formula=z3.And(eff, zcfg(cfg), z3.Not(used), SOME)))
    # 3. Trait variants, from_path arms gated by exactly their feature
    st = facts.files.get(('supported_traits',))
    if st:
        for v in st['variants']:
            if v['enum'] == 'Trait' and v['variant'] in FV:
                qs.append(dict(kind='variant-gate', where=f"supported_traits.rs:{v['line']}", what=f"Trait::{v['variant']} is not gated by exactly feature {v['variant']}", formula=z3.Xor(zcfg(v['cfg']), FV[v['variant']]), trait=v['variant']))
        for a in st['arms']:
            t = a['pat'].strip('"')
            if a.get('fn') == 'from_path' and t in FV:
                qs.append(dict(kind='arm-gate', where=f"supported_traits.rs:{a['line']}", what=f'name lookup arm "{t}" is not gated by exactly feature {t}', formula=z3.Xor(zcfg(a['cfg']), FV[t]), trait=t))
        for im in st['item_macros']:
            if 'compile_error' in im['path']:
                qs.append(dict(kind='guard', where=f"supported_traits.rs:{im['line']}", what='compile_error! guard is not exactly "no trait feature enabled"', formula=z3.Xor(zcfg(im['cfg']), z3.Not(SOME))))
    # dispatch blocks in lib.rs: handler call for trait X compiled exactly under feature X
    lib = facts.files.get(())
    if lib:
        for pth in lib['paths']:
            segs = pth['segments']
            if len(segs) >= 3 and segs[0] == 'trait_handlers' and segs[-1] == 'trait_meta_handler':
                mod = segs[1]
                t = next((f for f in FEATURES if f.lower() == mod.replace('_', '')), None)
                if t:
                    qs.append(dict(kind='dispatch-gate', where=f"lib.rs:{pth['line']}", what=f'dispatch of {t} is not compiled exactly under feature {t}', formula=z3.Xor(zcfg(pth['cfg']), FV[t]), trait=t))
    # 8. partner gates: a statement compiled only under feature X (outside the dispatch of X itself) must leave, once every
    #    `traits.contains(&Trait::X)` / `map.get(&Trait::X)` / `== Trait::X` in it is replaced by what it can only be when the variant
    #    does not exist, exactly the statement that is compiled under not(X) next to it (or nothing) — otherwise a build without X
    #    generates different code for the traits that are enabled.  A statement that only defines / assigns locals which are
    #    themselves read only under X is inert as well.
    for m, f in facts.files.items():
        eff = facts.modcfg.get(m, z3.BoolVal(True))
        gs = f.get('gated_stmts', [])
        for g in gs:
            here = g['cfg_here']
            outer = z3.And(eff, zcfg(g['cfg_outer']))
            where = f"{f['path']}:{g['line']}"
            if len(here) == 1 and 'feature' in here[0] and here[0]['feature'] in FV:
                X = here[0]['feature']
                sib = [o for o in gs if o['block'] == g['block'] and o.get('fn') == g.get('fn') and abs(o['idx'] - g['idx']) == 1 and o['cfg_here'] == [{'not': {'feature': X}}]]
                res = g['residual'][X]['stmts']
                want = [sib[0]['tokens']] if sib else []
                inert = z3.BoolVal(res == want)
                if res != want and g.get('local_only') is not None and g['local_only']:
                    uses = []
                    for n in g['local_only']:
                        uses += [z3.And(eff, zcfg(p_['cfg'])) for p_ in f['paths'] if p_.get('fn') == g.get('fn') and p_['segments'] == [n] and p_['line'] != g['line']]
                        uses += [z3.And(eff, zcfg(mi['cfg'])) for mi in f['macro_idents'] if mi.get('fn') == g.get('fn') and mi['name'] == n and mi['line'] != g['line']]
                    inert = z3.And([z3.Implies(u, FV[X]) for u in uses]) if uses else z3.BoolVal(True)
                qs.append(dict(kind='partner-gate', where=where, feature=X, what=f'statement compiled only under feature {X} does not reduce to its not({X}) counterpart when Trait::{X} cannot be requested: '
                               f'residual {res!r} vs {want!r}', formula=z3.And(outer, z3.Not(FV[X]), SOME, z3.Not(inert))))
            elif len(here) == 1 and 'not' in here[0] and here[0]['not'].get('feature') in FV:
                X = here[0]['not']['feature']
                sib = [o for o in gs if o['block'] == g['block'] and o.get('fn') == g.get('fn') and abs(o['idx'] - g['idx']) == 1 and o['cfg_here'] == [{'feature': X}]]
                qs.append(dict(kind='partner-gate', where=where, feature=X, what=f'statement compiled only under not({X}) has no cfg(feature = "{X}") counterpart next to it',
                               formula=z3.And(outer, z3.Not(FV[X]), SOME, z3.BoolVal(not sib))))
            else:
                facts.undecided_gated = getattr(facts, 'undecided_gated', []) + [f"{where}: cfg {here}"]
    return qs


def replay(subset, deny_warnings=True, tag='r'):
    """real cargo check of that feature subset on a scratch copy of /repo"""
    tmp = tempfile.mkdtemp(prefix='educe_c18_')
    try:
        shutil.copytree(os.path.join(REPO, 'src'), os.path.join(tmp, 'src'))
        shutil.copy(os.path.join(REPO, 'Cargo.toml'), os.path.join(tmp, 'Cargo.toml'))
        copy_lock(tmp)
        cmd = ['cargo', 'check', '--offline', '--no-default-features', '--target-dir', os.path.join(WORK, 'target-e3')]
        if subset:
            cmd += ['--features', ' '.join(subset)]
        env = {'RUSTFLAGS': '-D warnings'} if deny_warnings else {}
        rc, out = sh(cmd, cwd=tmp, env=env, timeout=900)
        return rc, out
    finally:
        shutil.rmtree(tmp, ignore_errors=True)


def main(tier, seed, keep=False):
    t0 = time.time()
    data, err = scan()
    if data is None:
        print('INCONCLUSIVE: tools/cfgscan failed: ' + err)
        return 2
    facts = Facts(data)
    inconclusive = [f"{f['path']}: {f['error']}" for f in facts.errors]
    qs = build_queries(facts)
    solver_s = 0.0
    sat = []
    counts = {}
    for q in qs:
        s = z3.Solver()
        s.add(q['formula'])
        ts = time.time()
        r = s.check()
        solver_s += time.time() - ts
        counts[q['kind']] = counts.get(q['kind'], 0) + 1
        if r == z3.sat:
            if q['kind'] == 'partner-gate':
                # a difference in generated code needs requests to show it: prefer the largest subset among the models (every other
                # feature on that the formula allows), so that the differential replay has every other trait to work with
                for f in FEATURES:
                    s.push()
                    s.add(FV[f])
                    if s.check() != z3.sat:
                        s.pop()
                s.check()
            q['subset'] = model_subset(s.model())
            sat.append(q)
        elif r != z3.unsat:
            inconclusive.append(f"{q['where']}: z3 said {r}")
    # cross-check a sample with cvc5
    cross = dict(asked=0, agree=0)
    for q in qs[::max(1, len(qs) // 40)][:40]:
        s = z3.Solver()
        s.add(q['formula'])
        r1 = str(s.check())
        try:
            p = subprocess.run(['cvc5', '--lang', 'smt2'], input='(set-logic QF_UF)\n' + s.to_smt2(), stdout=subprocess.PIPE, stderr=subprocess.STDOUT, text=True, timeout=60)
            if '(error' in p.stdout:
                continue
            cross['asked'] += 1
            if p.stdout.strip().splitlines()[0] == r1:
                cross['agree'] += 1
        except Exception:
            pass
    # replay each distinct model through rustc
    violations, refuted, inconclusive_replays = [], [], []
    by_subset = {}
    for q in sat:
        by_subset.setdefault(tuple(q['subset']), []).append(q)
    replays = 0
    for subset, ql in list(by_subset.items())[:8]:
        replays += 1
        kinds = {q['kind'] for q in ql}
        if kinds == {'rejection-gate'}:
            ok, detail = replay_rejection(list(subset), ql)
            if ok is None:
                inconclusive_replays.append((subset, ql, detail))
            elif not ok:
                violations.append((subset, ql, detail))
            else:
                refuted.append((subset, [q['what'] for q in ql]))
            continue
        if kinds == {'partner-gate'}:
            ok, detail = replay_partner(list(subset), ql)
            if ok is None:
                inconclusive_replays.append((subset, ql, detail))
            elif not ok:
                violations.append((subset, ql, detail))
            else:
                refuted.append((subset, [q['what'] for q in ql]))
            continue
        if kinds <= {'variant-gate', 'arm-gate', 'dispatch-gate'}:
            ok, detail = replay_trait_name(list(subset), ql)
            if not ok:
                violations.append((subset, ql, detail))
            else:
                refuted.append((subset, [q['what'] for q in ql]))
            continue
        rc, out = replay(list(subset))
        expect_fail = (len(subset) == 0)
        if (rc != 0) != expect_fail:
            violations.append((subset, ql, out[-3000:]))
        else:
            refuted.append((subset, [q['what'] for q in ql]))
    # translator validation: the reference model against rustc on a few subsets that it says are fine
    rng = random.Random(seed * 733 + 5)
    validated = 0
    val_fail = []
    pool = [[f] for f in FEATURES] + [[a, b] for a, b in (('Copy', 'Clone'), ('PartialEq', 'Eq'), ('PartialOrd', 'Ord'))]
    chosen = rng.sample(pool, 3 if tier == 'quick' else len(pool))
    if tier != 'quick':
        chosen += [[f for f in FEATURES if f != g] for g in FEATURES] + [rng.sample(FEATURES, rng.randint(2, 6)) for _ in range(10)]
    chosen.append([])
    for subset in chosen:
        if any(tuple(subset) == s for s in by_subset):
            continue
        rc, out = replay(subset)
        validated += 1
        if (rc != 0) != (len(subset) == 0):
            val_fail.append((subset, out[-2500:]))
        elif not subset and 'at least one of the trait features must be enabled' not in out:
            val_fail.append((subset, 'empty feature set did not fail with the explicit message: ' + out[-800:]))
    # the same for the partner-gate rule: subsets in which every coupled partner is compiled out (and, thorough, every singleton and
    # all-but-one subset) must expand the E2 corpus exactly like the all-features build
    diff_subsets = [['Debug', 'Copy', 'Eq', 'Ord', 'Deref'], ['Clone', 'PartialEq', 'PartialOrd', 'Hash', 'Default', 'Into']]
    if tier != 'quick':
        diff_subsets += [[f] for f in FEATURES] + [[f for f in FEATURES if f != g] for g in FEATURES]
    diff_checked = 0
    for subset in diff_subsets:
        if any(tuple(subset) == s for s in by_subset):
            continue
        ok, detail = replay_partner(subset, [])
        if ok is False:
            violations.append((tuple(subset), [dict(kind='validation', where='expansion differential', what='subset expands the corpus differently from the all-features build (found by the differential validation pass over the stated subsets, not by the solver)')], detail))
        elif ok is None and 'expand identically' not in detail:
            inconclusive.append(f'expansion differential for {subset}: {detail[:400]}')
        else:
            diff_checked += 1
    for subset, out in val_fail:
        # rustc refutes a subset the model calls fine: a real failure the encoder did not predict — still a violation, found by the validation pass
        violations.append((tuple(subset), [dict(kind='validation', where='cargo check', what='subset fails to build although every structural query is unsat (found by the rustc validation pass, not by the solver)')], out))
    for subset, ql, detail in inconclusive_replays:
        inconclusive.append(f"{ql[0]['where']}: {ql[0]['what']} (feature subset {list(subset)}); not replayed: {detail}")
    known = load_known('C18')
    out_v = []
    for subset, ql, detail in violations:
        rd = os.path.join(VERIF, 'replays', 'C18', 'features_' + ('_'.join(subset) or 'none'))
        shutil.rmtree(rd, ignore_errors=True)
        os.makedirs(rd, exist_ok=True)
        open(os.path.join(rd, 'REPLAY.md'), 'w').write(
            f'feature subset: {list(subset)}\nreplay: cd <copy of /repo> && RUSTFLAGS="-D warnings" cargo check --offline --no-default-features --features "{" ".join(subset)}"\n\n'
            + 'queries with this model:\n' + '\n'.join(f"  [{q['kind']}] {q['where']}: {q['what']}" for q in ql) + '\n\nrustc:\n' + detail + '\n')
        out_v.append(dict(subset=list(subset), what='; '.join(q['what'] for q in ql)[:500], replay=rd))
    samples = [dict(query=q['kind'], where=q['where'], what=q['what'], verdict='unsat') for q in qs[:: max(1, len(qs) // 3)][:3]]
    ev = dict(property_id='C18', tier=tier, seed=seed, level='model_checking', wall_s=round(time.time() - t0, 2), violations=len(out_v),
              assumptions=['reference model: module tree, crate-local item definitions, use leaves and paths as parsed by tools/cfgscan (syn full); names the model cannot see (associated items, macro output) are not constrained',
                           'cfgs other than feature = ".." (test, doc, docsrs, magiclen_educe_verif) are taken as false',
                           'every model is confirmed by a real `cargo check` of that subset with warnings denied; a model rustc refutes is recorded as encoder imprecision, not as a violation',
                           'the behavioural half (enabled traits behave as in the full build) is discharged by E1 on a stated list of subsets only'],
              coverage=dict(evaluations=len(qs), distinct_nontrivial=len({q['what'] for q in qs}), obligations=len(qs), discharged=len(qs) - len(sat), queries_by_kind=counts, solver_time_s=round(solver_s, 3),
                            sat_models=len(sat), distinct_subsets_replayed=replays, models_refuted_by_rustc=[dict(subset=list(s), what=w[:3]) for s, w in refuted][:10],
                            rustc_validated_subsets=validated, expansion_differential_subsets=diff_checked, cross_solver=cross, modules=len(facts.files), samples=samples,
                            rule='one obligation per (reference site, target) / cfg-gated let use / gate equivalence; the feature subset (all 4096) is the SAT variable; distinct = distinct (site, target) descriptions',
                            functions_encoded=['cfg(feature) structure of every module under /repo/src (lib.rs dispatch, supported_traits.rs, common/mod.rs, common/tools/mod.rs, trait_handlers/mod.rs, all handlers)'],
                            bounds=dict(feature_subsets='all 4096 (symbolic)', outside=['warnings other than unused imports / unresolved names', 'anything rustc decides that the reference model does not see', 'behaviour under subsets outside the stated list']),
                            checker_cmd='z3 per obligation; cvc5 on a sample; cargo check --no-default-features --features <subset> with -D warnings per model', exhaustive=False, inconclusive=inconclusive[:10]))
    return ev, out_v, inconclusive, known, len(qs), len(sat), validated, cross


REJECTION_INPUTS = {
    # diagnostic constructor -> derive input that reaches it ({T} = a trait enabled in the subset)
    'reuse_a_trait': '#[derive(Educe)]\n#[educe({T}, {T})]\nstruct S(u8);',
    'unsupported_trait': '#[derive(Educe)]\n#[educe(NoSuchTrait)]\nstruct S(u8);',
    'educe_format_incorrect': '#[derive(Educe)]\n#[educe = "x"]\nstruct S(u8);',
    'derive_attribute_not_set_up_yet': '#[derive(Educe)]\nstruct S(u8);',
}


def replay_rejection(subset, ql):
    """differential replay: the same derive input under the model's feature subset and under all features must be refused with the
    same diagnostic.  -> True (no difference: model refuted), False (difference shown), None (no input known for this diagnostic)"""
    diag = ql[0].get('diagnostic')
    tmpl = REJECTION_INPUTS.get(diag)
    if tmpl is None or not subset:
        return None, f'no replay input is known for diagnostic `{diag}`'
    t = [x for x in subset if x != 'Into'] or list(subset)
    attr = {'Into': 'Into(u8)'}.get(t[0], t[0])
    src = '#![allow(dead_code)]\nuse educe::Educe;\n' + tmpl.replace('{T}', attr) + '\n'
    outs = []
    for feats in (subset, FEATURES):
        tmp = tempfile.mkdtemp(prefix='educe_c18r_')
        try:
            os.makedirs(os.path.join(tmp, 'src'))
            fl = ', '.join(f'"{f}"' for f in feats)
            open(os.path.join(tmp, 'Cargo.toml'), 'w').write(f'[package]\nname = "rj"\nversion = "0.0.0"\nedition = "2021"\n[dependencies]\neduce = {{ path = "{REPO}", default-features = false, features = [{fl}] }}\n[workspace]\n')
            copy_lock(tmp)
            open(os.path.join(tmp, 'src', 'lib.rs'), 'w').write(src)
            rc, out = sh(['cargo', 'check', '--offline', '--target-dir', os.path.join(WORK, 'target-e3n')], cwd=tmp, timeout=900)
            errs = sorted(set(l.strip() for l in out.splitlines() if l.startswith('error') and 'could not compile' not in l))
            outs.append((rc != 0, errs))
        finally:
            shutil.rmtree(tmp, ignore_errors=True)
    if outs[0] != outs[1]:
        return False, f'input:\n{src}\nunder features {subset}: refused={outs[0][0]} {outs[0][1]}\nunder all features: refused={outs[1][0]} {outs[1][1]}'
    return True, 'same outcome under both feature sets'


def replay_partner(subset, ql):
    """differential replay of a partner-gate model: the real macro built with exactly `subset` against the real macro built with all
    twelve features, on every E2 corpus request that names only enabled traits; any impl whose tokens differ reproduces the model"""
    from . import e2
    exe_s, err = e2.build_expander(list(subset), target='target-expander-c18')
    if exe_s is None:
        return None, 'expander does not build with features ' + ' '.join(subset) + ':\n' + err[-1500:]
    exe_f, err = e2.build_expander(list(FEATURES), target='target-expander-c18')
    if exe_f is None:
        return None, 'expander does not build with all features:\n' + err[-1500:]
    reqs, seen = [], set()
    for tier in ('quick', 'thorough'):
        for r in e2.c11_corpus(tier, 0) + e2.c12_corpus(tier, 0):
            src = r.source(with_derive=False)
            named = {t for t, _ in r.traits}
            if src in seen or not named <= set(subset):
                continue
            seen.add(src)
            r2 = copy.copy(r)
            r2.rid = f'p{len(reqs)}'
            reqs.append(r2)
    # supplement: two enabled traits with attributes on one field / variant field, in both orders, as separate attributes and as one list
    # (per-field scanner state carried from one attribute to the next is feature-gated in places)
    FA = {'Debug': 'Debug(ignore)', 'PartialEq': 'PartialEq(ignore)', 'PartialOrd': 'PartialOrd(ignore)', 'Ord': 'Ord(ignore)', 'Hash': 'Hash(ignore)',
          'Clone': 'Clone(method = ::core::clone::Clone::clone)', 'Default': 'Default = 3', 'Deref': 'Deref', 'DerefMut': 'DerefMut', 'Into': 'Into(u8)'}

    class _Raw:
        def __init__(self, rid, src):
            self.rid, self.src = rid, src

        def source(self, with_derive=False):
            return self.src
    for ta in subset:
        for tb in subset:
            if ta == tb or ta not in FA or tb not in FA:
                continue
            tl = ', '.join(('Into(u8)' if t == 'Into' else t) for t in (ta, tb))
            dm = '#[educe(Default)] ' if 'Default' in (ta, tb) else ''
            for src in (f'#[educe({tl})]\npub struct Ty {{ #[educe({FA[ta]})] #[educe({FA[tb]})] x: u8, y: u8 }}',
                        f'#[educe({tl})]\npub struct Ty(#[educe({FA[ta]}, {FA[tb]})] u8, u8);',
                        f'#[educe({tl})]\npub enum Ty {{ {dm}A(#[educe({FA[ta]}, {FA[tb]})] u8, u8), B {{ #[educe({FA[ta]})] #[educe({FA[tb]})] x: u8, y: u8 }} }}'):
                reqs.append(_Raw(f'p{len(reqs)}', src))
    # a trait that is compiled out, named on a field / variant of a type that educes an enabled trait: refused by both builds (as
    # unsupported under the subset, as not used under all features), never accepted by one of them
    for ta in subset:
        if ta not in FA:
            continue
        for tx in FEATURES:
            if tx in subset or tx not in FA:
                continue
            tl = 'Into(u8)' if ta == 'Into' else ta
            reqs.append(_Raw(f'p{len(reqs)}', f'#[educe({tl})]\npub struct Ty {{ #[educe({FA[ta]})] #[educe({FA[tx]})] x: u8, y: u8 }}'))
            reqs.append(_Raw(f'p{len(reqs)}', f'#[educe({tl})]\npub enum Ty {{ A(#[educe({FA[tx]}, {FA[ta]})] u8, u8), B }}'))
    if 'PartialEq' in subset and 'Eq' in subset:
        for tb in subset:
            if tb in FA and tb != 'PartialEq':
                reqs.append(_Raw(f'p{len(reqs)}', f'#[educe(PartialEq, Eq, {"Into(u8)" if tb == "Into" else tb})]\npub struct Ty {{ #[educe(Eq(ignore), {FA[tb]})] x: u8, #[educe({FA[tb]})] #[educe(Eq(ignore))] y: u8, z: u8 }}'))
    a, b = e2.expand(exe_s, reqs), e2.expand(exe_f, reqs)
    diffs = []
    for r in reqs:
        x, y = a.get(r.rid, {}), b.get(r.rid, {})
        if 'impls' not in y:
            if 'impls' in x:
                diffs.append((r.source(with_derive=False), sorted(i['tokens'] for i in x['impls']), ['refused by the all-features build: ' + str(y.get('error', 'panic'))]))
            continue       # the full build refuses the request: nothing more to compare
        tx = sorted(i['tokens'] for i in x.get('impls', [])) if 'impls' in x else [x.get('error', 'panic')]
        ty = sorted(i['tokens'] for i in y['impls'])
        if tx != ty:
            diffs.append((r.source(with_derive=False), tx, ty))
    if not diffs:
        return None, f'{len(reqs)} corpus requests expand identically under {list(subset)} and under all features; the model is not reproduced by this corpus'
    src, tx, ty = diffs[0]
    return False, (f'{len(diffs)} of {len(reqs)} requests expand differently with features {list(subset)} than with all features, e.g.\n{src}\n--- subset build:\n' + '\n'.join(tx)[:1500]
                   + '\n--- all-features build:\n' + '\n'.join(ty)[:1500])


def replay_trait_name(subset, ql):
    """gate mismatch: with this subset, is naming the trait accepted exactly when its feature is on?"""
    t = ql[0].get('trait')
    tmp = tempfile.mkdtemp(prefix='educe_c18n_')
    try:
        os.makedirs(os.path.join(tmp, 'src'))
        feats = ', '.join(f'"{f}"' for f in subset)
        open(os.path.join(tmp, 'Cargo.toml'), 'w').write(f'[package]\nname = "nm"\nversion = "0.0.0"\nedition = "2021"\n[dependencies]\neduce = {{ path = "{REPO}", default-features = false, features = [{feats}] }}\n[workspace]\n')
        copy_lock(tmp)
        body = {'Deref': 'struct S(u8);', 'DerefMut': 'struct S(u8);', 'Into': 'struct S(u8);'}.get(t, 'struct S(u8);')
        attr = {'Into': 'Into(u8)', 'Debug': 'Debug', 'Copy': 'Copy'}.get(t, t)
        open(os.path.join(tmp, 'src', 'lib.rs'), 'w').write(f'#![allow(dead_code)]\nuse educe::Educe;\n#[derive(Educe)]\n#[educe({attr})]\n{body}\n')
        rc, out = sh(['cargo', 'check', '--offline', '--target-dir', os.path.join(WORK, 'target-e3n')], cwd=tmp, timeout=900)
        enabled = t in subset
        unsupported = 'unsupported' in out or 'is not supported' in out
        if enabled and unsupported:
            return False, f'feature {t} is enabled but naming {t} is rejected as unsupported:\n' + out[-1500:]
        if not enabled and rc == 0:
            return False, f'feature {t} is disabled but #[educe({attr})] was accepted'
        if not enabled and not unsupported:
            return False, f'feature {t} is disabled and naming it fails, but not as an unsupported trait:\n' + out[-1500:]
        return True, out[-500:]
    finally:
        shutil.rmtree(tmp, ignore_errors=True)
