"""C14 — alternative attribute spellings are interchangeable (behavioural equivalence).

Every member of a spelling group is discharged against the SAME oracle (generated from the
structured request, not from its spelling), so all members are equivalent to it and to each other
for all values.  Token-for-token equality is not claimed."""
import random
from .model import Spelling
from .runner import Module
from . import p_c02, p_c03, p_c05, p_c06, p_c07, p_c08, p_c10
from . import shapes as S


def bases():
    """-> list of (tag, emit(modname, cfgid, sp) -> Module)"""
    out = []

    # C02: ignore / method at struct, tuple-variant and named-variant positions, PartialEq and Eq carriers
    for k, (sh, car) in enumerate([(('struct', [('named', ['i', 'm', 'p'])]), 'PartialEq'),
                                   (('struct', [('tuple', ['m', 'i'])]), 'Eq'),
                                   (('enum', [('tuple', ['i', 'p', 'm']), ('named', ['m', 'i']), ('unit', [])]), 'PartialEq'),
                                   (('enum', [('named', ['i']), ('tuple', ['m'])]), 'Eq'),
                                   (('struct', [('named', ['f', 'i', 'm'])]), 'PartialEq'), (('enum', [('tuple', ['f', 'p']), ('named', ['i', 'f'])]), 'Eq')]):
        def mk(modname, cfgid, sp, sh=sh, car=car):
            t = p_c02.build(sh, car, car == 'Eq')
            return p_c02.emit(t, modname, cfgid, sp=sp)
        out.append((f'C02/{S.shape_id(sh)}/{car}', mk))

    # C03: rank / method / ignore, parameter order inside one trait, both carriers
    I = p_c03
    for k, (fl, r, mode) in enumerate([(['p', 'm', 'i'], [7, -3, None], 'both_ord'), (['m', 'p', 'p'], [0, None, -3], 'pord'),
                                       (['p', 'p', 'm'], [I.IMAX, 0, I.IMIN + 1], 'both_pord'), (['i', 'm'], [None, 7], 'ordonly'),
                                       (['m', 'i', 'p'], [I.IMIN, None, 0], 'both_ord'), (['p', 'm'], [-3, I.IMIN], 'pord'),
                                       (['f', 'm', 'i'], [7, -3, None], 'both_pord'), (['f', 'f'], [None, None], 'pord')]):
        def mk(modname, cfgid, sp, fl=fl, r=r, mode=mode, k=k):
            shape, ranks = p_c03.place(fl, r, k + 1)
            return p_c03.emit(modname, cfgid, shape, ranks, mode, sp=sp)
        out.append((f'C03/{"".join(fl)}/{p_c03.rid(r)}/{mode}', mk))

    # C05
    for sh in [('struct', [('tuple', ['i', 'm', 'w'])]), ('enum', [('named', ['m', 'i']), ('tuple', ['i', 'p']), ('unit', [])]), ('struct', [('named', ['f', 'i', 'f'])])]:
        def mk(modname, cfgid, sp, sh=sh):
            return p_c05.emit(modname, cfgid, sh, False, sp=sp)
        out.append((f'C05/{S.shape_id(sh)}', mk))

    # C06: name / rename / false / true, named_field, Trait = X shorthand, ignore, method — compact mode
    D = p_c06
    specs = [D.Spec('struct', 'Rn', [dict(kind='named', vname=None, nf=None, fields=['r', 'i', 'm'])]),
             D.Spec('struct', False, [dict(kind='tuple', vname=None, nf=None, fields=['p', 'i'])], True),
             D.Spec('struct', None, [dict(kind='named', vname=None, nf=None, fields=['b', 'p'])], False) if False else
             D.Spec('struct', None, [dict(kind='named', vname=None, nf=None, fields=['p', 'm'])], False),
             D.Spec('enum', True, [dict(kind='named', vname='Rv', nf=None, fields=['r', 'i']), dict(kind='tuple', vname=False, nf=True, fields=['p', 'b']), dict(kind='unit', vname='Rv', nf=None, fields=[])]),
             D.Spec('enum', 'En', [dict(kind='tuple', vname=None, nf=None, fields=['m', 'i']), dict(kind='named', vname=False, nf=False, fields=['p'])]),
             D.Spec('struct', None, [dict(kind='named', vname=None, nf=None, fields=['f', 'i', 'm'])]),
             D.Spec('enum', True, [dict(kind='tuple', vname=None, nf=True, fields=['f', 'p']), dict(kind='named', vname=None, nf=None, fields=['i', 'f'])])]
    for spc in specs:
        def mk(modname, cfgid, sp, spc=spc):
            import copy
            return p_c06.emit(modname, cfgid, copy.deepcopy(spc), sp=sp, modes=('compact',))
        out.append((f'C06/{D.spec_id(spc)}', mk))

    # C07
    for sh in [('struct', [('named', ['m', 'b'])]), ('enum', [('tuple', ['b', 'm']), ('named', ['m']), ('unit', [])])]:
        def mk(modname, cfgid, sp, sh=sh):
            return p_c07.emit(modname, cfgid, sh, False, sp=sp)
        out.append((f'C07/{S.shape_id(sh)}', mk))

    # C08: expression / expr, = / (), Default = e shorthand, new
    for (kind, vs, marked, te, new) in [('struct', [('named', ['e', 'd', 'e'])], 0, False, True), ('struct', [('tuple', ['e', 'e'])], 0, True, True),
                                        ('enum', [('unit', []), ('tuple', ['e', 'd']), ('named', ['d'])], 1, False, True),
                                        ('union', [('named', ['d', 'e'])], 1, False, True)]:
        def mk(modname, cfgid, sp, kind=kind, vs=vs, marked=marked, te=te, new=new):
            return p_c08.emit(modname, cfgid, kind, vs, marked, te, new, sp=sp)
        out.append((f'C08/{p_c08.vid(kind, vs, marked, te, new, False)}', mk))

    # C10: method path forms inside Into(T, method ..)
    for (ftys, targets, rot) in [(['u8', 'u16'], ['u16', 'u32'], 1), (['u8', 'u8', 'u32'], ['u8', 'u16', 'u32', 'Wr'], 0)]:
        def mk(modname, cfgid, sp, ftys=ftys, targets=targets, rot=rot):
            v0 = p_c10.build_variant(0, 'named', ftys, targets, rot)
            return p_c10.emit(modname, cfgid, 'struct', [v0], targets, sp=sp)
        out.append((f'C10/{",".join(ftys)}->{",".join(targets)}', mk))
    return out


def raw_name_modules(start, tier):
    """Debug names that are raw identifiers (`r#struct`): what is printed for them is not fixed by any property, so there is no
    oracle; instead every spelling of the same rename is compared with the canonical spelling `name(N)` of the same request,
    expansion against expansion, for all values (the spellings must stay interchangeable whatever N is)."""
    from .runner import Harness
    def forms(n, shorthand):
        fs = [f'Debug(name({n}))', f'Debug(name = {n})', f'Debug(name = "{n}")', f'Debug(name("{n}"))', f'Debug(rename = {n})', f'Debug(rename("{n}"))']
        if shorthand:
            fs += [f'Debug = {n}', f'Debug = "{n}"']
        return fs
    def decl(modname, tform, vform, fform, tform_e):
        return f"""pub mod {modname} {{
    use educe::Educe;
    use crate::support::dbg::Val;
    #[derive(Educe)]
    #[educe({tform})]
    pub struct St {{ #[educe({fform})] pub x: Val<1>, pub y: Val<2> }}
    #[derive(Educe)]
    #[educe({tform_e})]
    pub enum En {{ #[educe({vform})] A {{ f: Val<3>, #[educe({fform})] g: Val<4> }}, #[educe({vform})] B(Val<5>), C }}
}}
"""
    tf, vf, ff = forms('r#struct', True), forms('r#fn', True), forms('r#type', True)
    te = [x for x in forms('r#enum', True)]
    mods = []
    n = start
    k = max(len(tf), len(vf), len(ff))
    for j in range(1, k):
        if tier == 'quick' and j not in (1, 2, 6, 7):
            continue
        a = decl('a', tf[0], vf[0], ff[0], te[0])
        b = decl('b', tf[j % len(tf)], vf[j % len(vf)], ff[j % len(ff)], te[j % len(te)])
        h = Harness('h_same', unwind=72, covers=['reached'])
        body = 'use crate::support::dbg::*;\n' + a + b + h.attrs() + '''pub fn h_same() {
    let (p, q, r): (u8, u8, u8) = (kani::any(), kani::any(), kani::any());
    let which: u8 = kani::any();
    log_reset();
    let (b1, r1) = render(&a::St { x: Val(p), y: Val(q) }, false);
    log_reset();
    let (b2, r2) = render(&b::St { x: Val(p), y: Val(q) }, false);
    kani::cover!(true, "reached");
    assert!(r1.is_ok() && r2.is_ok() && !b1.overflow && b1.same(&b2), "two spellings of the same rename print differently (struct)");
    let (ea, eb) = match which % 3 {
        0 => (a::En::A { f: Val(p), g: Val(q) }, b::En::A { f: Val(p), g: Val(q) }),
        1 => (a::En::B(Val(r)), b::En::B(Val(r))),
        _ => (a::En::C, b::En::C),
    };
    log_reset();
    let (b3, r3) = render(&ea, false);
    log_reset();
    let (b4, r4) = render(&eb, false);
    assert!(r3.is_ok() && r4.is_ok() && !b3.overflow && b3.same(&b4), "two spellings of the same rename print differently (enum)");
}
'''
        mods.append(Module(f'm{n:04d}', f'raw-identifier names: `{tf[0]}` vs `{tf[j % len(tf)]}` (type), `{vf[j % len(vf)]}` (variant), `{ff[j % len(ff)]}` (field)', body, [h],
                           sample=dict(canonical=tf[0], alternative=tf[j % len(tf)]), functions=FUNCTIONS))
        n += 1
    return mods


def macro_forwarded_modules(start, tier):
    """attribute values forwarded through `macro_rules!` fragments (`$m:path`, `$t:ty`, `$r:expr`, `$n:ident`): the value reaches the
    derive inside an invisible group; `p = v` and `p(v)` must still be the same request"""
    from .runner import Harness
    mods = []
    n = start
    for form, tag in [('method($m)', 'p(v)'), ('method = $m', 'p = v')]:
        c = form.replace('$m', '$c')
        decl = f"""use crate::support::dbg::*;
macro_rules! mk {{
    ($m:path, $c:path, $h:path, $k:path, $f:path, $i:path, $t:ty, $r:expr, $n:ident) => {{
        #[derive(Educe)]
        #[educe(PartialEq)]
        pub struct Pe {{ #[educe(PartialEq({form}))] pub a: u8, pub b: u8 }}
        #[derive(Educe)]
        #[educe(PartialOrd, Ord)]
        #[derive(PartialEq, Eq)]
        pub struct Or {{ #[educe(Ord({c}, rank = $r))] pub a: u8, pub b: u8 }}
        #[derive(Educe)]
        #[educe(Hash)]
        pub enum Ha {{ A(#[educe(Hash({form.replace('$m', '$h')}))] u8, u8), B }}
        #[derive(Educe)]
        #[educe(Clone)]
        pub struct Cl {{ #[educe(Clone({form.replace('$m', '$k')}))] pub a: u8, pub b: u8 }}
        #[derive(Educe)]
        #[educe(Debug(name = $n))]
        pub struct De {{ #[educe(Debug({form.replace('$m', '$f')}))] pub a: u8, #[educe(Debug(name = $n))] pub b: Val<1> }}
        #[derive(Educe)]
        #[educe(Into($t))]
        pub struct In {{ pub a: u8, #[educe(Into($t, {form.replace('$m', '$i')}))] pub b: u8, pub c: $t }}
    }};
}}
pub fn widen(v: u8) -> u16 {{ v as u16 + 300 }}
mk!(eq_le, rev_cmp, hash_m, clone_m8, fmt_any, widen, u16, 7, Zed);
"""
        h = Harness('h_forwarded', unwind=40, covers=['reached'])
        body = decl + h.attrs() + '''pub fn h_forwarded() {
    let (p, q, r, s): (u8, u8, u8, u8) = (kani::any(), kani::any(), kani::any(), kani::any());
    kani::cover!(true, "reached");
    assert!((Pe { a: p, b: q } == Pe { a: r, b: s }) == (eq_le(&p, &r) && q == s), "PartialEq method forwarded by a macro");
    assert!(Ord::cmp(&Or { a: p, b: q }, &Or { a: r, b: s }) == q.cmp(&s).then(rev_cmp(&p, &r)), "Ord method / rank forwarded by a macro");
    let mut want = Rec::new();
    core::hash::Hash::hash(&0usize, &mut Rec::new());
    let got = rec_of(&Ha::A(p, q));
    let got2 = rec_of(&Ha::A(r, q));
    assert!(got.same(&got2) == (p == r), "Hash method forwarded by a macro");
    let _ = &mut want;
    let c = Clone::clone(&Cl { a: p, b: q });
    assert!(c.a == clone_m8(&p) && c.b == q, "Clone method forwarded by a macro");
    let v: u16 = Into::into(In { a: p, b: q, c: 9 });
    assert!(v == widen(q), "Into method / target type forwarded by a macro");
    log_reset();
    let (b1, r1) = render(&De { a: 1, b: Val(2) }, false);
    let wantb = b"Zed { a: ?, Zed: v1 }";
    assert!(r1.is_ok() && !b1.overflow && b1.n == wantb.len(), "Debug method / name forwarded by a macro (length)");
    let mut i = 0;
    while i < wantb.len() { assert!(b1.b[i] == wantb[i], "Debug method / name forwarded by a macro"); i += 1; }
}
'''
        mods.append(Module(f'm{n:04d}', f'values forwarded through macro_rules fragments ($m:path, $t:ty, $r:expr, $n:ident), method spelled `{tag}`', body, [h],
                           sample=dict(spelling=form), functions=FUNCTIONS))
        n += 1
    # names, ranks and booleans forwarded as `$x:ident` / `$x:expr` / `$x:literal`, each in the `p(v)` and the `p = v` spelling
    decl = '''use crate::support::dbg::*;
macro_rules! mk2 {
    ($n:ident, $s:expr, $l:literal, $r:expr, $b:expr, $c:literal) => {
        #[derive(Educe)]
        #[educe(Debug(name($n)))]
        pub struct D1 { #[educe(Debug(name($s)))] pub a: Val<1>, #[educe(Debug(name = $s))] pub b: Val<2>, #[educe(Debug(name($l)))] pub c: Val<3>, #[educe(Debug(name = $l))] pub d: Val<4> }
        #[derive(Educe)]
        #[educe(PartialOrd, Ord)]
        #[derive(PartialEq, Eq)]
        pub struct O1 { #[educe(Ord(rank($r)))] pub a: u8, pub b: u8 }
        #[derive(Educe)]
        #[educe(PartialEq)]
        pub struct P1 { #[educe(PartialEq(ignore = $b))] pub a: u8, #[educe(PartialEq(ignore($b)))] pub b: u8, #[educe(PartialEq(ignore = $c))] pub c: u8, #[educe(PartialEq(ignore($c)))] pub d: u8, pub e: u8 }
    };
}
mk2!(Zed, "kk", "ll", 7, true, true);
'''
    h = Harness('h_forwarded2', unwind=60, covers=['reached'])
    body = decl + h.attrs() + '''pub fn h_forwarded2() {
    let (p, q, r, s): (u8, u8, u8, u8) = (kani::any(), kani::any(), kani::any(), kani::any());
    kani::cover!(true, "reached");
    assert!(Ord::cmp(&O1 { a: p, b: q }, &O1 { a: r, b: s }) == q.cmp(&s).then(p.cmp(&r)), "rank(v) forwarded by a macro");
    assert!((P1 { a: p, b: q, c: p, d: q, e: 5 } == P1 { a: r, b: s, c: s, d: r, e: 5 }) && (P1 { a: p, b: q, c: p, d: q, e: 5 } != P1 { a: p, b: q, c: p, d: q, e: 6 }), "ignore = v / ignore(v) forwarded by a macro");
    log_reset();
    let (b1, r1) = render(&D1 { a: Val(1), b: Val(2), c: Val(3), d: Val(4) }, false);
    let wantb = b"Zed { kk: v1, kk: v2, ll: v3, ll: v4 }";
    assert!(r1.is_ok() && !b1.overflow && b1.n == wantb.len(), "Debug names forwarded by a macro (length)");
    let mut i = 0;
    while i < wantb.len() { assert!(b1.b[i] == wantb[i], "Debug names forwarded by a macro"); i += 1; }
}
'''
    mods.append(Module(f'm{n:04d}', 'names / ranks / booleans forwarded through macro_rules fragments ($n:ident, $s:expr, $l:literal), both spellings', body, [h], sample=dict(spelling='p(v) and p = v'), functions=FUNCTIONS))
    n += 1
    # the same values in the `p = v` spelling *followed by another parameter*: the value is then no longer the last thing in the list,
    # syn does not unwrap the invisible group for it, and the helpers of educe have to (rank, ignore, name, named_field, new)
    decl = '''use crate::support::dbg::*;
macro_rules! mk3 {
    ($r:expr, $b:expr, $s:expr, $l:literal, $t:expr) => {
        #[derive(Educe)]
        #[educe(PartialOrd, Ord)]
        #[derive(PartialEq, Eq)]
        pub struct O3 { #[educe(Ord(rank = $r, method = rev_cmp))] pub a: u8, pub b: u8 }
        #[derive(Educe)]
        #[educe(PartialEq)]
        pub struct P3 { #[educe(PartialEq(ignore = $b, method = eq_le))] pub a: u8, pub b: u8 }
        #[derive(Educe)]
        #[educe(Debug(name = $l, named_field = $t))]
        pub struct D3(#[educe(Debug(name = $s, method = fmt_any))] pub u8, pub Val<2>);
        #[derive(Educe)]
        #[educe(Default(new = $t, expression = N3 { a: 3 }))]
        pub struct N3 { pub a: u8 }
    };
}
mk3!(7, false, "kk", "Zed", true);
'''
    h = Harness('h_forwarded3', unwind=60, covers=['reached'])
    body = decl + h.attrs() + '''pub fn h_forwarded3() {
    let (p, q, r, s): (u8, u8, u8, u8) = (kani::any(), kani::any(), kani::any(), kani::any());
    kani::cover!(true, "reached");
    assert!(Ord::cmp(&O3 { a: p, b: q }, &O3 { a: r, b: s }) == q.cmp(&s).then(rev_cmp(&p, &r)), "rank = v, .. forwarded by a macro");
    assert!((P3 { a: p, b: q } == P3 { a: r, b: s }) == (eq_le(&p, &r) && q == s), "ignore = v, .. forwarded by a macro");
    assert!(N3::new().a == 3 && <N3 as Default>::default().a == 3, "new = v, .. forwarded by a macro");
    log_reset();
    let (b1, r1) = render(&D3(1, Val(2)), false);
    let wantb = b"Zed { kk: ?, _1: v2 }";
    assert!(r1.is_ok() && !b1.overflow && b1.n == wantb.len(), "Debug name = v, .. forwarded by a macro (length)");
    let mut i = 0;
    while i < wantb.len() { assert!(b1.b[i] == wantb[i], "Debug name = v, .. forwarded by a macro"); i += 1; }
}
'''
    mods.append(Module(f'm{n:04d}', 'forwarded values in the `p = v` spelling followed by another parameter (rank, ignore, name, named_field, new)', body, [h], sample=dict(spelling='p = v, q = w'), functions=FUNCTIONS,
                       classes=['c14:forwarded-value-followed-by-parameter']))
    n += 1
    return mods


STRUCTURAL = ('grouping', 'traitorder', 'paramorder')


def gen(tier, seed):
    mods = []
    n = 0
    rng = random.Random(seed * 7 + 1)
    covered = {}
    for bi, (tag, mk) in enumerate(bases()):
        probe = Spelling()
        m0 = mk(f'm{n:04d}', f'{tag}/spelling=canonical', probe)
        mods.append(m0); n += 1
        kinds = dict(probe.nopts)
        # each alternative of each spelling group used by this request
        alts = []
        for kind, cnt in sorted(kinds.items()):
            for j in range(1, cnt):
                alts.append((kind, j))
        if tier == 'quick':
            # every (kind, alternative) at least once over all bases; at most 5 per base, new ones first
            alts.sort(key=lambda a: (covered.get(a, 0), rng.random()))
            alts = alts[:5]
        for (kind, j) in alts:
            covered[(kind, j)] = covered.get((kind, j), 0) + 1
            sp = Spelling(force={kind: j})
            mods.append(mk(f'm{n:04d}', f'{tag}/spelling={kind}#{j}', sp)); n += 1
        # several attributes instead of one list + permuted trait/parameter order, and random mixes
        sp = Spelling(force={'grouping': 1, 'traitorder': 1, 'paramorder': 1})
        mods.append(mk(f'm{n:04d}', f'{tag}/spelling=split+rotated', sp)); n += 1
        for r in range(1 if tier == 'quick' else 4):
            sp = Spelling(mode='rand', seed=seed * 100 + bi * 10 + r)
            mods.append(mk(f'm{n:04d}', f'{tag}/spelling=random{r}', sp)); n += 1
    # method paths with several segments and generic arguments (`crate::support::sup::g::eq_le::<u8>`), in each of the four path spellings
    from . import model
    model.PATH_REWRITE = model.GENERIC_PATHS
    try:
        for bi, (tag, mk) in enumerate(bases()):
            if tag.split('/')[0] not in ('C02', 'C03', 'C05', 'C07'):
                continue
            if tier == 'quick' and bi % 2 == 1:
                continue
            for j in range(4):
                if tier == 'quick' and j in (0, 1) and (bi // 2 + j) % 2:
                    continue      # quick: both string spellings always, the two token spellings in alternation
                mods.append(mk(f'm{n:04d}', f'{tag}/generic-argument method paths/spelling=path#{j}', Spelling(force={'path': j}))); n += 1
    finally:
        model.PATH_REWRITE = None
    # several traits' attributes on the same item: one #[educe(A, B)] list vs. separate attributes in every rotation
    from . import p_c15
    for ti, (name, primary, cands, mk) in enumerate(p_c15.templates()):
        if tier == 'quick' and ti % 2 == 1:
            continue
        by = [c for c in cands if c not in primary and c not in ('Copy', 'Ord', 'Eq', 'DerefMut')][ti % 3:][:2]
        if 'PartialOrd' in by and 'PartialEq' not in primary and 'PartialEq' not in by:
            by = ['PartialEq'] + by
        for k in range(4 if tier != 'quick' else 2):
            sp = None if k == 0 else Spelling(force={'grouping': 1, 'traitorder': k})
            m = mk(f'm{n:04d}', f'{name} + {{{", ".join(by)}}}/spelling=' + ('one list' if k == 0 else f'separate attributes, rotation {k}'), p_c15.make_xf(by, ti), sp)
            if m is not None:
                mods.append(m); n += 1
    # literal defaults: `Default = lit`, `expression = lit`, `expr(lit)`, ... must all route the literal the same way
    from . import p_c08
    mods += p_c08.literal_modules(len(mods), tier)
    mods += raw_name_modules(len(mods), tier)
    mods += macro_forwarded_modules(len(mods), tier)
    return mods


RULE = ('one config = a request (taken from the C02/C03/C05/C06/C07/C08/C10 grammars, with attributes at type, variant and field level) x one spelling: canonical, each single alternative of each spelling group the request uses '
        '(p = v / p(v); identifier, path, integer as string literal; name / rename; expression / expr; Trait = X shorthands; ignore / ignore = true / ignore(true); Trait = false), one list vs. several #[educe] attributes with rotated trait and parameter order, and seeded random mixes. '
        'All spellings of a request are discharged against the same oracle for all values. Non-trivial = all harnesses passed with witnesses SATISFIED.')
BOUNDS = dict(outside=['token-for-token equality of expansions (two spellings that behave identically but emit different tokens are not distinguished)', 'bound(...) spellings (decided by the C12 encoder)',
                       'spellings of requests outside the base list'])
ASSUME = ['as for C02/C03/C05/C06/C07/C08/C10; Debug requests are rendered in compact mode only here (spelling affects parsing, not the formatter mode)']
FUNCTIONS = ['the eq / cmp / partial_cmp / hash / fmt / clone / clone_from / default / new / into expansions of each request under every spelling (parsers: common/ident_bool.rs, int.rs, path.rs, expr.rs and every models/*_attribute.rs)']


def main(tier, seed, keep=False):
    from .runner import run_e1
    mods = gen(tier, seed)
    for m in mods:
        m.functions = FUNCTIONS
    return run_e1('C14', tier, seed, mods, RULE, BOUNDS, ASSUME, need_stubbing=True, keep=keep, harness_timeout=600 if tier == 'quick' else 1200)
