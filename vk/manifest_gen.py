"""Writes /verif/MANIFEST.json from one table, so that it is always consistent with vk.main."""
import json
import os

VERIF = os.path.dirname(os.path.dirname(os.path.abspath(__file__)))

E1_NOTE = ('Trusted base: Kani 0.68.0 / CBMC 6.11.0 / CaDiCaL, rustc nightly-2026-08-21 layout and MIR for x86_64 (dev profile); '
           'oracle generated from the config by vk/, never from the expansion; bounds (fields, variants, field types) as in evidence.coverage.bounds. '
           'Derive requests are enumerated from a stated grammar (one harness family per request); inside a request every value is symbolic.')

CHECKS = {
    'C02': dict(engine='E1-kani', technique='bounded model checking (Kani/CBMC, CaDiCaL) of the generated eq/ne against a config-derived oracle',
                text='For every derive request in the grammar, CBMC decides (a == b) == field-wise oracle and (a != b) == !oracle for all pairs of values incl. all variant pairs, and reflexivity/symmetry/transitivity for all triples with lawful field comparisons; counterexamples are replayed natively before being reported.',
                ref='DESIGN.md §4 C02'),
    'C03': dict(engine='E1-kani', technique='bounded model checking (Kani/CBMC, CaDiCaL) of the generated cmp/partial_cmp against a rank-sorted lexicographic oracle',
                text='For every derive request in the grammar (field lists over plain/NaN-like/ignored/method x every permutation of explicit ranks incl. isize::MIN/MAX x struct/enum, named/tuple x four trait sets) CBMC decides partial_cmp == oracle, cmp == oracle and partial_cmp == Some(cmp) for all value pairs, and the total-order laws for all triples with lawful comparisons.',
                ref='DESIGN.md §4 C03'),
    'C04': dict(engine='E1-kani', technique='bounded model checking (Kani/CBMC, CaDiCaL, pointer checks on) of the generated enum cmp/partial_cmp against a declared-discriminant oracle',
                text='For every enum definition in the grammar (payload types incl. niche/zero-sized, repr, explicit discriminants incl. width boundaries) CBMC decides that cmp/partial_cmp equal the declared-discriminant order for different variants and the payload order for equal variants, for all value pairs and all neighbour bytes, with memory-safety checks on.',
                ref='DESIGN.md §4 C04'),
    'C05': dict(engine='E1-kani', technique='bounded model checking (Kani/CBMC, CaDiCaL) of the generated hash() driven by a recording Hasher',
                text='For every derive request in the grammar CBMC decides, for all value pairs, that equal (variant, non-ignored fields) feed identical write sequences, unequal ones feed different sequences, the tail is exactly the per-field feed in declaration order (own Hash or method), the prefix depends on the variant only and separates variants, and a == b implies equal feeds when PartialEq is educed with the same ignores.',
                ref='DESIGN.md §4 C05'),
    'C06': dict(engine='E1-kani', technique='bounded model checking (Kani/CBMC, CaDiCaL) of the generated fmt() against a core::fmt builder oracle, compact and alternate, with one validated std stub',
                text='For every derive request in the grammar the bytes rendered through Formatter::new (alternate off and on, symbolic variant) equal those of an oracle written with debug_struct/debug_tuple/debug_map/write_str, and a side-channel log proves for all field values that each value went through its own formatter in order; parameter-free configs are also compared with #[derive(Debug)].',
                ref='DESIGN.md §4 C06',
                note=E1_NOTE + ' STUB (part of the claim): <CharSearcher as Searcher>::next_match is replaced in {:#?} harnesses by an ASCII-needle model validated natively against the real function on every run.'),
    'C07': dict(engine='E1-kani', technique='bounded model checking (Kani/CBMC, CaDiCaL) of the generated clone/clone_from against a field-wise expected value',
                text='For every derive request in the grammar CBMC decides that x.clone() keeps the variant and transforms each field exactly once by its own Clone or the method (bitwise under Copy without a method), and that after a.clone_from(&b) a equals the expected b.clone() for all ordered pairs incl. different variants; unions are bitwise.',
                ref='DESIGN.md §4 C07'),
    'C08': dict(engine='E1-kani', technique='bounded model checking (Kani/CBMC, CaDiCaL) of the generated default()/new() under a symbolic environment',
                text='Every field Default and every user expression reads its own slot of an arbitrary 16-byte environment, so CBMC decides for all environments that default() is the designated struct / marked-or-only variant / marked-or-only union field with each field from its own source and that new() equals default(); the literal x type x spelling table is evaluated as closed terms (counted separately).',
                ref='DESIGN.md §4 C08'),
    'C09': dict(engine='E1-kani', technique='bounded model checking (Kani/CBMC, CaDiCaL) of deref/deref_mut with pointer-identity assertions',
                text='For every marker placement in the grammar CBMC decides that &*x has the address of the designated field (or its referent) for every variant and value, and that a write through &mut *x reaches the DerefMut-designated field and leaves every other field and the variant unchanged.',
                ref='DESIGN.md §4 C09'),
    'C10': dict(engine='E1-kani', technique='bounded model checking (Kani/CBMC, CaDiCaL) of every generated Into<T>::into against a per-target oracle',
                text='For every requested target, variant and value CBMC decides that into() returns the designated field (marker, sole field or unique same-typed field) passed through its per-target method, unchanged, or through Into.',
                ref='DESIGN.md §4 C10'),
    'C11': dict(engine='E2-applicability', technique='SAT/SMT (z3, cvc5 cross-check) over impl applicability encoded from the where-clauses educe really emits; models replayed through rustc',
                text='For every generic request in the grammar the real expansion is obtained in-process and z3 decides, over all instantiations (which argument type implements which trait), that each emitted impl applies exactly when every delegated field type implements the trait plus the Self supertraits (W xor F unsat); companions are compared with their primary. Structural rules are validated against rustc on every run and every SAT model is replayed through rustc before it is reported.',
                ref='DESIGN.md §3.2, §4 C11', category='model_checking',
                note='Trusted base: z3 4.x (python API), cvc5 on a sample; tools/expander (compiles /repo/src/lib.rs with --cfg magiclen_educe_verif; only impl structure is read); structural rules for u8/NoImpl/Option/array/Box/PhantomData/tuple x 9 traits (validated by rustc each run); predicates outside the grammar are opaque atoms. Stand-alone Eq requires PartialEq of the fields, as README and the handler document.'),
    'C12': dict(engine='E2-applicability', technique='SAT/SMT (z3, cvc5 cross-check) over impl applicability for every explicit bound mode; header parameter lists compared structurally',
                text='For parameter lists mixing lifetimes, bounded and defaulted type parameters and const parameters, with user where-clauses, z3 decides for every trait and bound spelling (*, list, string, false, "", per-target Into bounds) that the emitted where-clause is equivalent to exactly the predicates the mode names plus the type\'s own bounds, over all instantiations; the impl header must repeat the parameters (minus defaults) in order.',
                ref='DESIGN.md §3.2, §4 C12', category='model_checking',
                note='As C11. "Header reproduces the parameters" is a list comparison done by the extractor, not a solver step (stated).'),
    'C14': dict(engine='E1-kani', technique='bounded model checking (Kani/CBMC, CaDiCaL): every spelling of a request discharged against the same config-derived oracle',
                text='For requests from the C02/C03/C05/C06/C07/C08/C10 grammars with attributes at type, variant and field level, every documented spelling (each single alternative of each spelling group, one list vs several attributes in every rotation, random mixes) is decided equal to the same oracle for all values, hence all spellings are behaviourally equivalent. Token-for-token equality is not claimed.',
                ref='DESIGN.md §4 C14',
                note=E1_NOTE + ' Behavioural equivalence only: two spellings that behave identically but emit different tokens are not distinguished. bound(...) spellings are not covered here.'),
    'C15': dict(engine='E1-kani', technique='bounded model checking (Kani/CBMC, CaDiCaL): trait t against its own oracle in the presence of bystander traits with conflicting attributes',
                text='For each trait t (templates of C02..C10) and bystander sets S covering every other trait, with conflicting attributes on the same fields, in one list or separate attributes and before or after t, CBMC decides that t still equals the oracle computed from t\'s attributes alone for all values.',
                ref='DESIGN.md §4 C15',
                note=E1_NOTE + ' Behavioural independence only (token-level "unchanged" is not claimed); |S| <= 4 in quick.'),
    'C17': dict(engine='E4-mir-smt', technique='MIR -> SMT-LIB (string theory) symbolic execution of the loop-free string-edit kernels; z3 and cvc5; rustc replay of models',
                text='PARTIAL: claimed only for the mechanism "length-indexed string edits when suggesting the unsafe form" (the three *::panic::union_without_unsafe functions). Their MIR is dumped from the current tree on every run and walked symbolically over one SMT string (the printed attribute); every panic-reaching path and every insert_str precondition must be unsat in both solvers under a stated over-approximation of what the attribute can print as. The rest of C17 (arbitrary token mutations, unwraps, stack depth, termination) is outside reach and not claimed; an auxiliary, non-deciding smoke runs ~310 malformed derive inputs through the real macro in-process and reports a panic as found by execution.',
                ref='DESIGN.md §3.4, §4 C17', category='model_checking',
                note='Partial claim (see text). Trusted base: rustc nightly MIR (-Zunpretty=mir), the call whitelist and the environment assumption in vk/e4.py (ASCII, attribute text <= 48 bytes), z3 4.8.12 and cvc5 1.0 (both must agree); every model is confirmed by compiling the attribute with the real proc macro.'),
    'C18': dict(engine='E3-cfg-sat', technique='SAT (z3, cvc5 cross-check) over the cfg(feature) structure extracted from the sources, all 4096 subsets symbolic, models replayed with cargo check; Kani/CBMC on a stated list of subsets for behaviour',
                text='tools/cfgscan extracts the module tree, definitions, use leaves and every path with its cfg stack from the current sources; z3 decides for every (reference, target), every cfg-gated let, every Trait variant / lookup arm / dispatch gate, the compile_error! guard, every binding / import / private item (unused-variable, unused-mut, unused-import, dead-code lints) and every diagnostic of the shared entry point (a rejection must not exist only under some subsets) that no feature subset compiles a reference without its target (the subset is the SAT variable); for every statement compiled only under cfg(feature = X) its residual when Trait::X cannot be requested must equal the not(X) statement next to it (partner gates: the enabled traits generate the same code without X), a model being replayed by expanding the E2 corpus with the real macro built with that subset and with all features; each model is confirmed by a real cargo check -D warnings of that subset, or for a rejection by building the same derive input under that subset and under all features. Behavioural equality with the full build is discharged by the E1 harnesses of the enabled traits under 5 (quick) / ~33 (thorough) stated subsets.',
                ref='DESIGN.md §3.3, §4 C18', category='model_checking',
                note='Trusted base: the reference model of the crate built by tools/cfgscan (names it cannot see are unconstrained: a miss, never an alarm), z3/cvc5, cargo check for confirmation and for a validation sample of subsets on each run; the behavioural half covers the stated subsets only.'),
    'C19': dict(engine='E1-kani', technique='bounded model checking (Kani/CBMC, CaDiCaL) of the C02..C10 harnesses re-instantiated in hostile naming contexts',
                text='User identifiers harvested on each run from the quote!/format_ident! templates of /repo/src are used as field, variant and parameter names, and the derive site is placed in a module shadowing Option/Some/None/Result/Ok/Err/Ordering/Clone/Default/Debug/core/std/... (also: inherent methods named like the trait methods, raw-identifier field names, custom methods imported under the names of generated locals, user macros named like the std macros used); CBMC decides behaviour still equals the oracle for all values in each context. A context that does not compile is surfaced as a compiler verdict (not a solver obligation).',
                ref='DESIGN.md §4 C19',
                note=E1_NOTE + ' Compile verdicts of hostile contexts are rustc\'s; #![no_std] is emulated by renaming `std` at the harness crate root (`extern crate educe as std;`), so any `::std::` path of generated code fails to resolve. Three open known findings (type parameter named like the generated hasher generic; custom method path named like a generated parameter / local; field type named like the generated Debug helper struct).'),
    'C20': dict(engine='E1-kani', technique='bounded model checking (Kani/CBMC, CaDiCaL) of the generated union eq/hash/clone/default/fmt over arbitrary bytes',
                text='For every union layout in the grammar (sizes 1..8, alignments 1..8, with and without padding, one generic) CBMC decides for every byte pattern that == is equality of the size_of::<Self>() bytes, hash feeds exactly those bytes as one slice, clone is a bitwise copy, default initialises the designated field from its own source; Debug equals debug_tuple(name).field(&bytes) / Debug::fmt(bytes) on fixed byte patterns in both modes and on arbitrary bytes for size 1.',
                ref='DESIGN.md §4 C20',
                note=E1_NOTE + ' The "only behind unsafe" half of the statement is a rejection fact and is not claimed. STUB in {:#?} harnesses as for C06.'),
}

NOT_APPLICABLE = {
    'C01': "whether generated items compile (and lint clean) is decided by rustc's resolver/type checker; no SMT encoding of that is within reach and Kani ICEs on the macro's own (proc_macro2/syn) code, so only compiler-oracle enumeration remains, which is another technique",
    'C13': 'each rejection is a control-flow outcome inside syn-driven parsing code; Kani ICEs on that code (kani-compiler intrinsics.rs:243) and no MIR encoder of syn/HashMap/BTreeMap is within reach; running the macro on bad inputs has no symbolic variable',
    'C16': "the only varying input is std's per-process RandomState seed inside HashMap iteration; it cannot be made symbolic without executing the macro symbolically, which is unavailable here",
}

PENDING = {}


def build():
    checks = []
    for pid, c in sorted(CHECKS.items()):
        checks.append(dict(
            property_id=pid,
            quick_cmd=f'./check {pid} --tier quick',
            thorough_cmd=f'./check {pid} --tier thorough',
            evidence_file=f'/verif/evidence/{pid}.json',
            replay_cmd_template=f'./check {pid} --replay {{path}}',
            engine=c['engine'],
            level_claimed=dict(category=c.get('category', 'model_checking'), text=c['text'], design_ref=c['ref']),
            level_note=c.get('note', E1_NOTE),
            technique=c['technique'],
        ))
    na = [dict(property_id=k, reason=v) for k, v in sorted({**NOT_APPLICABLE, **PENDING}.items()) if k not in CHECKS]
    man = dict(
        version=1,
        setup_cmd='./setup.sh',
        hooks=dict(guard='magiclen_educe_verif', enable='RUSTFLAGS="--cfg magiclen_educe_verif" (used only by tools/expander, which compiles /repo/src/lib.rs as an ordinary library)',
                   baseline_off_cmd='cd /repo && cargo test --workspace --no-fail-fast --offline',
                   source_commits=HOOK_COMMITS, add_only=True),
        engines=[
            dict(name='E2-applicability', path='vk/e2.py', serves_properties=['C11', 'C12'],
                 kind_free_text='own propositional encoder of impl applicability (z3/cvc5) over the where-clauses extracted from the real in-process expansion; rustc replay of models'),
            dict(name='E3-cfg-sat', path='vk/e3.py', serves_properties=['C18'], kind_free_text='own SAT encoder of the crate\'s cfg(feature) structure (tools/cfgscan + z3/cvc5), cargo check replay'),
            dict(name='E4-mir-smt', path='vk/e4.py', serves_properties=['C17'], kind_free_text='own MIR->SMT-LIB encoder for loop-free string kernels (z3 + cvc5 strings), rustc replay'),
            dict(name='E1-kani', path='vk/runner.py', serves_properties=sorted(k for k, c in CHECKS.items() if c['engine'].startswith('E1')),
                 kind_free_text='Kani/CBMC bounded model checking of the code educe generates for enumerated derive requests; symbolic values, variant pairs, bytes'),
        ],
        checks=checks,
        not_applicable=na,
        notes='Solver-based checking of the real code; see DESIGN.md. Exit 0 = held on everything explored (KNOWN-FINDING lines allowed), 1 = VIOLATION (replayed against the real build), 2 = inconclusive (timeout/OOM/vacuity/non-reproducing), never reported as success.',
    )
    return man


HOOK_COMMITS = ['9262abd']

if __name__ == '__main__':
    man = build()
    with open(os.path.join(VERIF, 'MANIFEST.json'), 'w') as f:
        json.dump(man, f, indent=1)
    print('MANIFEST.json written:', len(man['checks']), 'checks,', len(man['not_applicable']), 'not applicable')
