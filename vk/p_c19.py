"""C19 — generated code is insulated from the names at the derive site.

The C02..C10 harness templates are re-instantiated (a) with user identifiers harvested from the
identifiers that occur in educe's own quote! templates, (b) with the derive site inside a module that
shadows the prelude names the generated code mentions, (c) both.  The solver decides that behaviour
still equals the oracle for all values; a context that does not compile is a compiler verdict."""
import copy
import os
import re
import random
from . import model
from .model import F, V, T, render_type
from .runner import Harness, Module, REPO
from . import p_c02, p_c03, p_c05, p_c06, p_c07, p_c08, p_c09, p_c10
from . import shapes as S

BARE_MACROS = set()   # std macros the templates invoke without an absolute path (filled by harvest())
KEYWORDS = set('''as break const continue crate else enum extern false fn for if impl in let loop match mod move mut pub ref return self Self static struct super
trait true type unsafe use where while async await dyn abstract become box do final macro override priv typeof unsized virtual yield try union'''.split())
PRIMS = set('u8 u16 u32 u64 u128 usize i8 i16 i32 i64 i128 isize bool char str f32 f64'.split())


def _macro_bodies(src, name):
    out = []
    for m in re.finditer(r'\b' + name + r'\s*!\s*([\(\{\[])', src):
        open_c = m.group(1)
        close_c = {'(': ')', '{': '}', '[': ']'}[open_c]
        depth = 0
        i = m.end() - 1
        start = i + 1
        while i < len(src):
            c = src[i]
            if c == open_c:
                depth += 1
            elif c == close_c:
                depth -= 1
                if depth == 0:
                    out.append(src[start:i])
                    break
            i += 1
    return out


def harvest():
    """identifiers that occur in the generated code, read from /repo's current quote! templates"""
    idents = {}
    patterns = set()
    root = os.path.join(REPO, 'src')
    for dp, _, fs in os.walk(root):
        for fn in fs:
            if not fn.endswith('.rs'):
                continue
            src = open(os.path.join(dp, fn)).read()
            for body in _macro_bodies(src, 'quote') + _macro_bodies(src, 'quote_spanned'):
                body = re.sub(r'//[^\n]*', ' ', body)
                body = re.sub(r'"(\\.|[^"\\])*"', ' ', body)
                for m in re.finditer(r'(#?)\b([A-Za-z_][A-Za-z0-9_]*)\b', body):
                    if m.group(1) == '#':
                        continue
                    w = m.group(2)
                    if w in KEYWORDS or w in PRIMS:
                        continue
                    idents[w] = idents.get(w, 0) + 1
            for m in re.finditer(r'format_ident!\(\s*"([^"]+)"', src):
                patterns.add(m.group(1))
            for body in _macro_bodies(src, 'quote') + _macro_bodies(src, 'quote_spanned'):
                body = re.sub(r'//[^\n]*', ' ', body)
                for m in re.finditer(r'(::\s*)?\b([a-z_][a-z0-9_]*)\s*!\s*[\(\[\{]', body):
                    if not m.group(1) and m.group(2) not in ('quote', 'quote_spanned', 'format_ident'):
                        BARE_MACROS.add(m.group(2))
    return idents, sorted(patterns)


def hostile_names():
    idents, patterns = harvest()
    lower = sorted(w for w in idents if re.match(r'^_*[a-z][a-z0-9_]*$', w) and w not in ('core', 'std', 'cmp', 'fmt', 'hash', 'clone', 'default', 'ops', 'convert', 'mem', 'slice', 'marker', 'option'))
    upper = sorted(w for w in idents if re.match(r'^[A-Z][A-Za-z0-9_]*$', w))
    from_pat = []
    for p in patterns:
        for base in ('x', '0', 'y'):
            w = p.replace('{}', base)
            if re.match(r'^[A-Za-z_][A-Za-z0-9_]*$', w):
                from_pat.append(w)
    fields = []
    for w in lower + from_pat + ['_0', '__0', '_1', '__1', '_s_x', '_o_x', '_d_x', 'v_x', '_x', 'educe__f']:
        if w not in fields and w not in KEYWORDS and w != '_':
            fields.append(w)
    return fields, upper, patterns, idents


ABS_TY = {'Mod4': 'crate::support::sup::Mod4', 'Nan': 'crate::support::sup::Nan', 'Bump': 'crate::support::sup::Bump', 'Unlawful': 'crate::support::sup::Unlawful'}
SUP_FNS = ['eq_le', 'eq_half', 'rev_cmp', 'rev_pcmp', 'half_cmp', 'half_pcmp', 'hash_m', 'clone_m', 'clone_mu', 'clone_m8', 'eq_any', 'cmp_any', 'pcmp_any', 'hash_any', 'fmt_any']
DBG_FNS = ['fmt_m', 'fmt_nl']


def abs_ty(ty):
    if ty in ABS_TY:
        return ABS_TY[ty]
    if ty.startswith('Val<'):
        return 'crate::support::dbg::' + ty
    if ty.startswith('D<') or ty in ('Wr',):
        return 'super::' + ty
    return ty


def abs_path(p):
    if p in SUP_FNS:
        return 'crate::support::sup::' + p
    if p in DBG_FNS:
        return 'crate::support::dbg::' + p
    if p.startswith('m_'):
        return 'super::' + p
    return p


def abs_expr(e):
    e = re.sub(r'\bD\(', 'super::D(', e)
    e = re.sub(r'(?<![:\w])src\(', 'super::src(', e)
    return e


SHADOW = '''    // user items shadowing the prelude names the generated code mentions
    pub struct Option; pub struct Some<T>(pub T); pub struct None; pub struct Result; pub struct Ok; pub struct Err;
    pub struct Ordering; pub struct Formatter; pub struct PhantomData; pub struct Hasher; pub struct Box; pub struct Vec; pub struct String;
    pub trait Clone {} pub trait Copy {} pub trait Default {} pub trait Debug {} pub trait PartialEq {} pub trait Eq {} pub trait PartialOrd {} pub trait Ord {}
    pub trait Hash {} pub trait Into {} pub trait From {} pub trait Deref {} pub trait DerefMut {} pub trait Sized {}
    pub mod core {} pub mod std {} pub mod cmp {} pub mod fmt {} pub mod hash {} pub mod clone {} pub mod default {} pub mod ops {} pub mod convert {} pub mod mem {} pub mod slice {} pub mod marker {}
    pub fn unreachable() {} pub fn stringify() {} pub fn drop() {}
    // user macros named like the std macros the generated code invokes
    #[allow(unused_macros)] macro_rules! stringify { ($($t:tt)*) => { "shadowed" } }
    #[allow(unused_macros)] macro_rules! unreachable { ($($t:tt)*) => { panic!("shadowed unreachable") } }
'''


INHERENT = '''    // inherent associated functions named like the trait methods: the generated code must never reach them
    impl {name} {{
        pub fn default() -> Self {{ panic!("inherent default") }}
        pub fn clone(&self) -> Self {{ panic!("inherent clone") }}
        pub fn clone_from(&mut self, _s: &Self) {{ panic!("inherent clone_from") }}
        pub fn eq(&self, _o: &Self) -> bool {{ panic!("inherent eq") }}
        pub fn ne(&self, _o: &Self) -> bool {{ panic!("inherent ne") }}
        pub fn cmp(&self, _o: &Self) -> ::core::cmp::Ordering {{ panic!("inherent cmp") }}
        pub fn partial_cmp(&self, _o: &Self) -> ::core::option::Option<::core::cmp::Ordering> {{ panic!("inherent partial_cmp") }}
        pub fn hash<HH>(&self, _s: &mut HH) {{ panic!("inherent hash") }}
        pub fn fmt(&self, _f: &mut ::core::fmt::Formatter<'_>) -> ::core::fmt::Result {{ panic!("inherent fmt") }}
        pub fn deref(&self) -> &u8 {{ panic!("inherent deref") }}
        pub fn deref_mut(&mut self) -> &mut u8 {{ panic!("inherent deref_mut") }}
        pub fn into(self) -> u8 {{ panic!("inherent into") }}
    }}
'''


def make_wrap(shadow, glob_variants, inherent=False):
    def wrap(decl, t):
        inner = ''.join('    ' + l + '\n' for l in decl.splitlines())
        extra = ''
        if glob_variants and t.kind == 'enum' and t.variants:
            extra = f'    #[allow(unused_imports)]\n    use self::{t.name}::*;\n'
        inh = INHERENT.format(name=t.name).replace('panic!(', '::core::panic!(') if inherent and not t.generics else ''
        if getattr(t, '_import_expr_items', False):
            # default expressions keep their single-identifier calls (`D(src(3))`); the items are imported by name at the derive site
            extra += '    #[allow(unused_imports)]\n    use super::{src, D};\n'
        for path, al in getattr(t, '_method_aliases', {}).items():
            src = path
            extra += f'    #[allow(unused_imports)]\n    use {src} as {al};\n'
        macros = ''
        if shadow:
            for mname in sorted(BARE_MACROS - {'stringify', 'unreachable'}):
                macros += f'    #[allow(unused_macros)] macro_rules! {mname} {{ ($($t:tt)*) => {{ ::core::compile_error!("a user macro named {mname} at the derive site was reached by generated code") }} }}\n'
        return ('pub mod hostile {\n    #![allow(dead_code, unused_imports, non_camel_case_types, non_snake_case, unused_variables)]\n    use educe::Educe;\n'
                + (SHADOW if shadow else '') + macros + extra + inner + inh + '}\n' + f'pub use self::hostile::{t.name};\n')
    return wrap


def make_xf(field_names, variant_names, rot, absolutize=True, exact=False, method_alias=None, import_expr_items=False):
    def xf(t):
        t._import_expr_items = import_expr_items
        k = 0 if exact else rot
        aliases = {}     # absolute method path -> single-identifier name it is imported under at the derive site

        def alias(path):
            if not method_alias or '::' not in path:
                return path
            if path not in aliases:
                aliases[path] = method_alias[len(aliases) % len(method_alias)] if len(aliases) < len(method_alias) else f'{method_alias[0]}{len(aliases)}'
            return aliases[path]
        t._method_aliases = aliases
        for vi, v in enumerate(t.variants):
            if variant_names and t.kind == 'enum':
                v.name = variant_names[((0 if exact else rot) + vi) % len(variant_names)]
            used = set()
            for i, f in enumerate(v.fields):
                if field_names and f.name is not None:
                    for _ in range(len(field_names)):
                        cand = field_names[k % len(field_names)]
                        k += 1
                        if cand not in used:
                            break
                    used.add(cand)
                    f.name = cand
                if absolutize:
                    f.ty = abs_ty(f.ty)
                    for tr, p in list(f.a.items()):
                        if isinstance(p, dict):
                            p = dict(p)
                            if 'method' in p:
                                p['method'] = alias(abs_path(p['method']))
                            if 'expr' in p and not import_expr_items:
                                p['expr'] = abs_expr(p['expr'])
                            f.a[tr] = p
                        elif isinstance(p, list):
                            f.a[tr] = [dict(e, **({'method': alias(abs_path(e['method']))} if e.get('method') else {}), ty=abs_ty(e['ty'])) for e in p]
        if absolutize:
            nt = []
            for tr, p in t.traits:
                p = dict(p)
                if 'expr' in p:
                    p['expr'] = (p['expr'] if import_expr_items else abs_expr(p['expr'])).replace('Ty {', f'{t.name} {{').replace('Ty::', f'{t.name}::').replace('Ty(', f'{t.name}(')
                if tr == 'Into' and 'ty' in p:
                    p['ty'] = abs_ty(p['ty'])
                nt.append((tr, p))
            t.traits = nt
    return xf


def templates():
    L = []
    for sh, car in [(('struct', [('named', ['p', 'i', 'm'])]), 'PartialEq'), (('enum', [('named', ['m', 'q', 'i']), ('named', ['i', 'p']), ('unit', [])]), 'Eq'),
                    (('enum', [('tuple', ['m', 'p']), ('named', ['q'])]), 'PartialEq')]:
        def mk(modname, cfgid, xf, sh=sh, car=car):
            t = p_c02.build(sh, car, car == 'Eq')
            return p_c02.emit(t, modname, cfgid, xf=xf)
        L.append((f'PartialEq:{S.shape_id(sh)}', mk))
    for k, (fl, r, mode) in enumerate([(['p', 'm', 'i'], [7, -3, None], 'both_ord'), (['n', 'p', 'm'], [None, 0, -3], 'pord'), (['p', 'p'], [0, -3], 'ordonly'), (['m', 'n'], [None, None], 'pord'),
                                       # every (handler, trait set) pair: the Ord handlers also emit the PartialOrd impl when both are educed
                                       (['p', 'm'], [None, None], 'both_ord'), (['m', 'p'], [0, None], 'both_pord'), (['p', 'i', 'p'], [None, None, None], 'ordonly')]):
        def mk(modname, cfgid, xf, fl=fl, r=r, mode=mode, k=k):
            shape, ranks = p_c03.place(fl, r, (0, 2, 4, 3, 4, 3, 1)[k])
            return p_c03.emit(modname, cfgid, shape, ranks, mode, xf=xf)
        L.append((f'Ord:{"".join(fl)}/{mode}', mk))
    for sh in [('struct', [('named', ['p', 'i', 'm'])]), ('enum', [('named', ['m', 'w']), ('tuple', ['i', 'p']), ('unit', [])])]:
        def mk(modname, cfgid, xf, sh=sh):
            return p_c05.emit(modname, cfgid, sh, False, xf=xf)
        L.append((f'Hash:{S.shape_id(sh)}', mk))
    D = p_c06
    for spc in [D.Spec('struct', None, [dict(kind='named', vname=None, nf=None, fields=['p', 'i', 'm'])]),
                D.Spec('enum', True, [dict(kind='named', vname=None, nf=None, fields=['p', 'm']), dict(kind='tuple', vname=None, nf=True, fields=['p', 'l']), dict(kind='unit', vname=None, nf=None, fields=[])]),
                D.Spec('struct', False, [dict(kind='named', vname=None, nf=None, fields=['m', 'p'])])]:
        def mk(modname, cfgid, xf, spc=spc):
            return p_c06.emit(modname, cfgid, copy.deepcopy(spc), xf=xf, modes=('compact',))
        L.append((f'Debug:{D.spec_id(spc)}', mk))
    # Debug requests in which no field shows a default key (renamed, positional or ignored): used with raw-identifier field names,
    # whose default key the property does not define (`r#type` vs `type`)
    for spc in [D.Spec('enum', True, [dict(kind='named', vname=None, nf=False, fields=['p', 'm']), dict(kind='named', vname='Rv', nf=None, fields=['r', 'b']), dict(kind='named', vname=False, nf=False, fields=['l', 'i'])]),
                D.Spec('struct', 'Rn', [dict(kind='named', vname=None, nf=None, fields=['r', 'i', 'b'])]),
                D.Spec('struct', None, [dict(kind='named', vname=None, nf=None, fields=['p', 'm', 'i'])], False)]:
        def mk(modname, cfgid, xf, spc=spc):
            return p_c06.emit(modname, cfgid, copy.deepcopy(spc), xf=xf, modes=('compact',))
        L.append((f'DebugNoDefaultKey:{D.spec_id(spc)}', mk))
    for sh, cp in [(('struct', [('named', ['m', 'b', 'u'])]), False), (('enum', [('named', ['b', 'm']), ('tuple', ['u', 'b']), ('unit', [])]), False), (('enum', [('named', ['l', 'u']), ('unit', [])]), True)]:
        def mk(modname, cfgid, xf, sh=sh, cp=cp):
            return p_c07.emit(modname, cfgid, sh, cp, xf=xf)
        L.append((f'Clone:{S.shape_id(sh)}/copy={int(cp)}', mk))
    for (kind, vs, marked, te, new) in [('struct', [('named', ['e', 'd', 'e'])], 0, False, True), ('enum', [('unit', []), ('named', ['e', 'd']), ('tuple', ['d'])], 1, False, True),
                                        ('union', [('named', ['d', 'e'])], 1, False, False)]:
        def mk(modname, cfgid, xf, kind=kind, vs=vs, marked=marked, te=te, new=new):
            return p_c08.emit(modname, cfgid, kind, vs, marked, te, new, xf=xf)
        L.append((f'Default:{p_c08.vid(kind, vs, marked, te, new, False)}', mk))
    specs9 = p_c09.variant_specs(True)
    named9 = [s for s in specs9 if s[0] == 'named' and s[1] >= 2]
    for idx in (3, 17):
        sp9 = named9[idx % len(named9)]
        def mk(modname, cfgid, xf, sp9=sp9):
            return p_c09.emit(modname, cfgid, 'enum', [sp9, named9[(idx * 3 + 1) % len(named9)]], True, xf=xf)
        L.append((f'Deref:{p_c09.sid(sp9)}', mk))
    for (ftys, targets, rot) in [(['u8', 'u16'], ['u16', 'u32'], 1), (['u8', 'u8', 'u32'], ['u8', 'u32', 'Wr'], 0)]:
        def mk(modname, cfgid, xf, ftys=ftys, targets=targets, rot=rot):
            v0 = p_c10.build_variant(0, 'named', ftys, targets, rot)
            v1 = p_c10.build_variant(1, 'named', ftys[::-1], targets, rot + 1)
            vs = [v for v in (v0, v1) if v is not None]
            return p_c10.emit(modname, cfgid, 'enum' if len(vs) > 1 else 'struct', vs, targets, xf=xf)
        L.append((f'Into:{",".join(ftys)}->{",".join(targets)}', mk))
    return L


def named_type_modules(start, upper):
    """concrete user types (not parameters) named like the generic parameters / helper types of the generated code, used as field types:
    a template that splices the field type inside its own `fn hash<H: ..>` or next to `Educe__DebugField` would capture them"""
    mods = []
    n = start
    cands = [u for u in ['H', 'V', 'M', 'Educe__RawString', 'Educe__DebugField'] if u in upper or u in ('H', 'V', 'M')]
    # user types named like library types a handler might recognise by name (a `PhantomData` that is not core's carries data)
    cands += ['PhantomData', 'String']
    for g in cands:
        body = f'''pub mod hostile {{
    #![allow(non_camel_case_types)]
    use educe::Educe;
    #[derive(Clone, Copy, Debug, PartialEq, Eq, PartialOrd, Ord, Hash, Default)]
    pub struct {g}(pub u8);
    pub fn fm(_v: &{g}, f: &mut ::core::fmt::Formatter<'_>) -> ::core::fmt::Result {{ f.write_str("x") }}
    #[derive(Educe)]
    #[educe(Debug, Clone, PartialEq, Eq, PartialOrd, Ord, Hash, Default)]
    pub struct Ty {{ pub a: {g}, pub b: Option<{g}>, #[educe(Debug(method(fm)))] pub c: {g} }}
    #[derive(Educe)]
    #[educe(Debug(name = false), Clone, PartialEq, Eq, PartialOrd, Ord, Hash)]
    pub enum En {{ A({g}, #[educe(Debug(method(fm)))] {g}), B {{ x: Option<{g}> }} }}
}}
pub use self::hostile::{{Ty, En, {g} as Fty}};
''' + Harness('h_named_type', unwind=8, covers=['reached']).attrs() + '''pub fn h_named_type() {
    let (p, q, r, s): (u8, u8, u8, u8) = (kani::any(), kani::any(), kani::any(), kani::any());
    let a = Ty { a: Fty(p), b: Some(Fty(q)), c: Fty(1) };
    let b = Ty { a: Fty(r), b: Some(Fty(s)), c: Fty(1) };
    kani::cover!(true, "reached");
    assert!((a == b) == ((p, q) == (r, s)));
    assert!(Ord::cmp(&a, &b) == (p, q).cmp(&(r, s)));
    let c = Clone::clone(&a);
    assert!(c == a);
    let mut d = Ty { a: Fty(r), b: Some(Fty(s)), c: Fty(2) };
    Clone::clone_from(&mut d, &a);
    assert!(d == a && d.c == Fty(1), "clone_from did not reproduce every field");
    if (p, q) == (r, s) { assert!(rec_of(&a).same(&rec_of(&b))); }
    let mut want = Rec::new();
    core::hash::Hash::hash(&Fty(p), &mut want);
    core::hash::Hash::hash(&Some(Fty(q)), &mut want);
    core::hash::Hash::hash(&Fty(1), &mut want);
    assert!(rec_of(&a).same(&want), "hash does not feed every field through its own Hash");
    let e = En::A(Fty(p), Fty(q));
    let f = En::B { x: None };
    assert!(e != f && Clone::clone(&e) == e && Ord::cmp(&e, &f) == Ordering::Less);
    let z = <Ty as Default>::default();
    assert!(z.a == Fty(0) && z.b.is_none());
}
'''
        cls = ['c19:field-type-named-like-generated-helper-type'] if g == 'Educe__DebugField' else []
        mods.append(Module(f'm{n:04d}', f'concrete field type named `{g}` (struct and enum; Debug with method, Clone, PartialEq, Ord, Hash, Default)', body,
                           [Harness('h_named_type', unwind=8, covers=['reached'])], sample=dict(field_type=g), functions=FUNCTIONS, classes=cls))
        n += 1
    return mods


def generic_modules(start, upper):
    """type / const / lifetime parameters named like identifiers of the generated code"""
    mods = []
    n = start
    hasher_generics = set()
    hd = os.path.join(REPO, 'src', 'trait_handlers', 'hash')
    for fn in sorted(os.listdir(hd)) if os.path.isdir(hd) else []:
        if fn.endswith('.rs'):
            hasher_generics |= set(re.findall(r'fn\s+hash\s*<\s*(\w+)\s*:', open(os.path.join(hd, fn)).read()))
    cands = [u for u in ['H', 'V', 'M', 'T', 'Educe__RawString', 'Educe__DebugField'] if u in upper or u in ('H', 'V', 'M')]
    cands += [g for g in sorted(hasher_generics) if g not in cands]
    for g in cands:
        body = f'''pub mod hostile {{
    use educe::Educe;
    #[derive(Educe)]
    #[educe(Hash, PartialEq, PartialOrd, Clone, Debug, Default)]
    pub struct Ty<{g}>(pub {g}, pub u8);
}}
pub use self::hostile::Ty;
''' + Harness('h_generic', unwind=8, covers=['reached']).attrs() + '''pub fn h_generic() {
    let a = Ty::<u8>(kani::any(), kani::any());
    let b = Ty::<u8>(kani::any(), kani::any());
    kani::cover!(true, "reached");
    assert!((a == b) == (a.0 == b.0 && a.1 == b.1));
    assert!(a.partial_cmp(&b) == Some(a.0.cmp(&b.0).then(a.1.cmp(&b.1))));
    let ra = rec_of(&a);
    let mut want = Rec::new();
    core::hash::Hash::hash(&a.0, &mut want);
    core::hash::Hash::hash(&a.1, &mut want);
    assert!(ra.same(&want));
    let c = a.clone();
    assert!(c.0 == a.0 && c.1 == a.1);
    let d = Ty::<u8>::default();
    assert!(d.0 == 0 && d.1 == 0);
}
'''
        cls = ['c19:type-parameter-named-like-hasher-generic'] if g in hasher_generics else []
        mods.append(Module(f'm{n:04d}', f'generic struct Ty<{g}>({g}, u8) with Hash, PartialEq, PartialOrd, Clone, Debug, Default', body,
                           [Harness('h_generic', unwind=8, covers=['reached'])], sample=dict(type_parameter=g), classes=cls, functions=FUNCTIONS))
        n += 1
    body = '''pub mod hostile {
    use educe::Educe;
    #[derive(Educe)]
    #[educe(Hash, PartialEq, PartialOrd, Clone, Debug)]
    pub struct Ty<'f, 'state, const N: usize, const M: usize>(pub &'f [u8; N], pub &'state [u8; M]);
}
pub use self::hostile::Ty;
''' + Harness('h_generic', unwind=8, covers=['reached']).attrs() + '''pub fn h_generic() {
    let x: [u8; 2] = Sym::sym();
    let y: [u8; 1] = Sym::sym();
    let a = Ty(&x, &y);
    let b = a.clone();
    kani::cover!(true, "reached");
    assert!(a == b);
    assert!(a.partial_cmp(&b) == Some(Ordering::Equal));
}
'''
    mods.append(Module(f'm{n:04d}', "generic struct Ty<'f, 'state, const N, const M> with Hash, PartialEq, PartialOrd, Clone, Debug", body,
                       [Harness('h_generic', unwind=8, covers=['reached'])], sample=dict(params="'f, 'state, N, M"), functions=FUNCTIONS))
    return mods


def primitive_alias_modules(start):
    """primitive type names are not reserved: `type u8 = u16;` at the derive site is legal, and generated code that says `u8` for "a byte"
    (the unions' byte views) would read the wrong number of bytes"""
    body = '''use crate::support::dbg::*;
pub mod hostile {
    #![allow(non_camel_case_types, dead_code)]
    pub type u8 = ::core::primitive::u16;
    pub type usize = ::core::primitive::u16;
    pub type bool = ::core::primitive::u32;
    use educe::Educe;
    #[derive(Educe)]
    #[educe(Debug(unsafe), PartialEq(unsafe), Eq, Hash(unsafe), Copy, Clone)]
    pub union Un { pub a: [::core::primitive::u8; 2], pub b: ::core::primitive::u16 }
    #[derive(Educe)]
    #[educe(Debug, Clone, PartialEq, Eq, PartialOrd, Ord, Hash, Default)]
    pub struct St { pub a: ::core::primitive::u8, pub b: ::core::primitive::bool }
    #[derive(Educe)]
    #[educe(Debug(name = true), Clone, PartialEq, Eq, PartialOrd, Ord, Hash)]
    pub enum En { A(::core::primitive::u8), B { x: ::core::primitive::u16 }, C }
}
pub use self::hostile::{Un, St, En};
'''
    h = Harness('h_prim_alias', unwind=40, covers=['reached'])
    body += h.attrs() + '''pub fn h_prim_alias() {
    let (p, q, r, s): (u8, u8, u8, u8) = (kani::any(), kani::any(), kani::any(), kani::any());
    let arr = [Un { a: [p, q] }, Un { a: [r, s] }];
    kani::cover!(true, "reached");
    assert!((arr[0] == arr[1]) == ((p, q) == (r, s)), "union == with a shadowed `u8`");
    let mut want = Rec::new();
    core::hash::Hash::hash(&[p, q][..], &mut want);
    assert!(rec_of(&arr[0]).same(&want), "union hash with a shadowed `u8`");
    let a = St { a: p, b: q & 1 == 1 };
    let b = St { a: r, b: s & 1 == 1 };
    assert!((a == b) == ((p, q & 1) == (r, s & 1)) && Ord::cmp(&a, &b) == (p, q & 1).cmp(&(r, s & 1)));
    let e = if p & 1 == 1 { En::A(q) } else { En::B { x: r as u16 } };
    assert!(Clone::clone(&e) == e && (Ord::cmp(&e, &En::C) == Ordering::Less));
    let x = Un { a: [1, 2] };
    let (b1, r1) = render(&x, false);
    let wantb = b"Un([1, 2])";
    assert!(r1.is_ok() && !b1.overflow && b1.n == wantb.len(), "union Debug with a shadowed `u8` (length)");
    let mut i = 0;
    while i < wantb.len() { assert!(b1.b[i] == wantb[i], "union Debug with a shadowed `u8`"); i += 1; }
}
'''
    return [Module(f'm{start:04d}', 'primitive type names aliased at the derive site (`type u8 = u16; type usize = u16; type bool = u32;`): union byte views, struct, enum', body, [h],
                   sample=dict(alias='type u8 = u16'), functions=FUNCTIONS)]


def prelude_typed_field_modules(start):
    """fields whose *types* are the prelude items the generated code itself mentions (Result, Option, Ordering, PhantomData): an import or
    alias introduced inside the generated body (`use ::core::fmt::Result;`) would capture the user's type"""
    body = '''use crate::support::dbg::*;
use core::marker::PhantomData;
pub fn fmt_r(_v: &Result<u8, u8>, f: &mut core::fmt::Formatter<\'_>) -> core::fmt::Result { f.write_str("r") }
pub fn fmt_o(_v: &Option<u8>, f: &mut core::fmt::Formatter<\'_>) -> core::fmt::Result { f.write_str("o") }
pub fn fmt_g(_v: &Ordering, f: &mut core::fmt::Formatter<\'_>) -> core::fmt::Result { f.write_str("g") }
#[derive(Educe)]
#[educe(Debug(name = false), Clone, PartialEq, Eq, PartialOrd, Ord, Hash)]
pub struct St { #[educe(Debug(method(fmt_r)))] pub r: Result<u8, u8>, pub o: Option<u8>, #[educe(Debug(method(fmt_o)))] pub p: Option<u8>, #[educe(Debug(method(fmt_g)))] pub g: Ordering, #[educe(Debug(ignore))] pub m: PhantomData<u8> }
#[derive(Educe)]
#[educe(Debug, Clone, PartialEq, Eq, PartialOrd, Ord, Hash)]
pub struct Tu(#[educe(Debug(method(fmt_r)))] pub Result<u8, u8>, pub Option<u8>, #[educe(Debug(method(fmt_g)))] pub Ordering);
#[derive(Educe)]
#[educe(Debug, Clone, PartialEq, Eq, PartialOrd, Ord, Hash)]
pub enum En {
    #[educe(Debug(name = false))]
    A { #[educe(Debug(method(fmt_r)))] r: Result<u8, u8>, o: Option<u8> },
    #[educe(Debug(name = false))]
    B(#[educe(Debug(method(fmt_o)))] Option<u8>, #[educe(Debug(method(fmt_r)))] Result<u8, u8>),
    C { #[educe(Debug(method(fmt_g)))] g: Ordering },
}
fn expect(b: &Buf, want: &[u8]) -> bool { if b.overflow || b.n != want.len() { return false; } let mut i = 0; while i < want.len() { if b.b[i] != want[i] { return false; } i += 1; } true }
'''
    h1 = Harness('h_debug', unwind=48, covers=['reached'])
    body += h1.attrs() + '''pub fn h_debug() {
    let s = St { r: Ok(1), o: None, p: Some(2), g: Ordering::Less, m: PhantomData };
    let (b, r) = render(&s, false);
    kani::cover!(true, "reached");
    assert!(r.is_ok() && expect(&b, b"{r: r, o: None, p: o, g: g}"), "map-style struct Debug with prelude-typed method fields");
    let (b, r) = render(&Tu(Err(3), None, Ordering::Equal), false);
    assert!(r.is_ok() && expect(&b, b"Tu(r, None, g)"), "tuple struct Debug with prelude-typed method fields");
    let (b, r) = render(&En::A { r: Ok(1), o: None }, false);
    assert!(r.is_ok() && expect(&b, b"{r: r, o: None}"), "map-style variant Debug");
    let (b, r) = render(&En::B(None, Ok(1)), false);
    assert!(r.is_ok() && expect(&b, b"(o, r)"), "bare tuple variant Debug");
    let (b, r) = render(&En::C { g: Ordering::Greater }, false);
    assert!(r.is_ok() && expect(&b, b"C { g: g }"), "named variant Debug");
}
'''
    h2 = Harness('h_values', unwind=8, covers=['reached'])
    body += h2.attrs() + '''pub fn h_values() {
    let (p, q, x, y): (u8, u8, u8, u8) = (kani::any(), kani::any(), kani::any(), kani::any());
    let mk = |a: u8, b: u8| St { r: if a % 2 == 0 { Ok(a) } else { Err(a) }, o: if b % 3 == 0 { None } else { Some(b) }, p: Some(b), g: Ordering::Equal, m: PhantomData };
    let key = |s: &St| (s.r, s.o, s.p, s.g);
    let (a, b) = (mk(p, q), mk(x, y));
    kani::cover!(true, "reached");
    assert!((a == b) == (key(&a) == key(&b)), "eq on prelude-typed fields");
    assert!(Ord::cmp(&a, &b) == key(&a).cmp(&key(&b)) && PartialOrd::partial_cmp(&a, &b) == Some(key(&a).cmp(&key(&b))), "cmp on prelude-typed fields");
    let c = Clone::clone(&a);
    assert!(key(&c) == key(&a), "clone on prelude-typed fields");
    if key(&a) == key(&b) { assert!(rec_of(&a).same(&rec_of(&b)), "hash on prelude-typed fields"); }
}
'''
    return [Module(f'm{start:04d}', 'fields typed Result / Option / Ordering / PhantomData (prelude names the generated code mentions), with Debug methods, in map-style, tuple and named shapes', body, [h1, h2],
                   sample=dict(field_types='Result<u8, u8>, Option<u8>, Ordering, PhantomData<u8>'), functions=FUNCTIONS)]


def field_type_inherent_modules(start):
    """field types with inherent methods named like the trait methods (and misbehaving): every template must reach the trait impl"""
    body = '''use crate::support::dbg::*;
#[derive(Educe)]
#[educe(Debug, Clone, PartialEq, Eq, PartialOrd, Ord, Hash, Default, Into(u16))]
pub struct St { #[educe(Into(u16))] pub a: Inh, pub b: u8 }
#[derive(Educe)]
#[educe(Into(u16))]
pub enum EI { A(#[educe(Into(u16))] Inh, u8), B { x: Inh } }
#[derive(Educe)]
#[educe(Debug, Clone, PartialEq, Eq, PartialOrd, Ord, Hash, Default)]
pub struct Tu(pub u8, pub Inh);
#[derive(Educe)]
#[educe(Debug(name = true), Clone, PartialEq, Eq, PartialOrd, Ord, Hash, Default)]
pub enum En { #[educe(Default)] A(Inh, u8), B { x: Inh }, C }
#[derive(Educe)]
#[educe(Default)]
pub union U1 { pub a: Inh }
#[derive(Educe)]
#[educe(Default, Copy, Clone)]
pub union U2 { pub w: u16, #[educe(Default)] pub b: Inh }
fn any_en() -> En { match kani::any::<u8>() % 3 { 0 => En::A(Sym::sym(), Sym::sym()), 1 => En::B { x: Sym::sym() }, _ => En::C } }
fn key(e: &En) -> (u8, u8, u8) { match e { En::A(i, v) => (0, i.0, *v), En::B { x } => (1, x.0, 0), En::C => (2, 0, 0) } }
'''
    hs = []
    h = Harness('h_struct', unwind=12, covers=['reached'])
    body += h.attrs() + '''pub fn h_struct() {
    let (p, q, r, s): (u8, u8, u8, u8) = (kani::any(), kani::any(), kani::any(), kani::any());
    let a = St { a: Inh(p), b: q };
    let b = St { a: Inh(r), b: s };
    kani::cover!(true, "reached");
    assert!((a == b) == ((p, q) == (r, s)) && (a != b) == ((p, q) != (r, s)), "eq went through the inherent eq/ne of the field type");
    assert!(Ord::cmp(&a, &b) == (p, q).cmp(&(r, s)) && PartialOrd::partial_cmp(&a, &b) == Some((p, q).cmp(&(r, s))), "cmp went through the inherent cmp of the field type");
    let c = Clone::clone(&a);
    assert!(c.a.0 == p && c.b == q, "clone went through the inherent clone of the field type");
    let mut d = St { a: Inh(r), b: s };
    Clone::clone_from(&mut d, &a);
    assert!(d.a.0 == p && d.b == q, "clone_from went through the inherent clone_from of the field type");
    let z = <St as Default>::default();
    assert!(z.a.0 == 5 && z.b == 0, "default went through the inherent default of the field type");
    let u1 = <U1 as Default>::default();
    let u2 = <U2 as Default>::default();
    assert!(unsafe { u1.a.0 } == 5 && unsafe { u2.b.0 } == 5, "union default went through the inherent default of the field type");
    let t = Tu(q, Inh(p));
    let u = Clone::clone(&t);
    assert!(u.1 .0 == p && u.0 == q && t == u);
    let ra = rec_of(&a);
    let mut want = Rec::new();
    core::hash::Hash::hash(&Inh(p), &mut want);
    core::hash::Hash::hash(&q, &mut want);
    assert!(ra.same(&want), "hash went through the inherent hash of the field type");
    let i16_: u16 = ::core::convert::Into::into(a);
    assert!(i16_ == p as u16 + 256, "Into went through the inherent into of the field type");
    let e = if kani::any::<u8>() & 1 == 1 { EI::A(Inh(r), s) } else { EI::B { x: Inh(r) } };
    let e16: u16 = ::core::convert::Into::into(e);
    assert!(e16 == r as u16 + 256, "enum Into went through the inherent into of the field type");
}
'''
    hs.append(h)
    h = Harness('h_enum', unwind=12, covers=['reached'])
    body += h.attrs() + '''pub fn h_enum() {
    let a = any_en();
    let b = any_en();
    kani::cover!(true, "reached");
    assert!((a == b) == (key(&a) == key(&b)), "enum eq");
    assert!(Ord::cmp(&a, &b) == key(&a).cmp(&key(&b)) && PartialOrd::partial_cmp(&a, &b) == Some(key(&a).cmp(&key(&b))), "enum cmp");
    let c = Clone::clone(&a);
    assert!(key(&c) == key(&a), "enum clone went through the inherent clone of the field type");
    let mut d = any_en();
    Clone::clone_from(&mut d, &a);
    assert!(key(&d) == key(&a), "enum clone_from");
    let z = <En as Default>::default();
    assert!(key(&z) == (0, 5, 0), "enum default");
}
'''
    hs.append(h)
    h = Harness('h_debug', unwind=40, covers=['reached'])
    body += h.attrs() + '''pub fn h_debug() {
    let a = St { a: Inh(3), b: 4 };
    let (b1, r1) = render(&a, false);
    kani::cover!(true, "reached");
    let want = b"St { a: i, b: 4 }";
    assert!(r1.is_ok() && !b1.overflow && b1.n == want.len());
    let mut i = 0;
    while i < want.len() { assert!(b1.b[i] == want[i], "Debug went through the inherent fmt of the field type"); i += 1; }
}
'''
    hs.append(h)
    return [Module(f'm{start:04d}', 'field type with inherent clone / eq / cmp / hash / fmt / default that misbehave (struct, tuple struct, enum; all traits)', body, hs,
                   sample=dict(field_type='Inh'), functions=FUNCTIONS)]


FUNCTIONS = ['every expansion of C02..C10 generated at a derive site whose field / variant / parameter names are drawn from the generated code and whose module shadows prelude names']


# identifiers the templates use for the parameters / locals of the generated methods, and the templates that use them
METHOD_IDENTS = ['other', 'state', 'source', 'f', 'builder', 'arg']
METHOD_IDENT_USERS = {'other': ('PartialEq:', 'Ord:', 'Hash:'), 'state': ('Hash:', 'PartialEq:'), 'source': ('Clone:', 'Hash:'), 'f': ('Debug:', 'DebugNoDefaultKey:', 'Ord:'),
                      'builder': ('Debug:', 'DebugNoDefaultKey:'), 'arg': ('Debug:', 'DebugNoDefaultKey:', 'Clone:')}


def contexts(fields, upper, tier, seed):
    """-> list of (tag, shadow?, glob?, field-name list, variant-name list)"""
    rng = random.Random(seed * 59 + 3)
    fa = fields[0::2] or fields
    fb = fields[1::2] or fields
    vn = [u for u in upper if u not in ('Self',)] or ['None', 'Some']
    ctx = [('shadow', True, False, None, None),
           ('inherent-methods', False, False, None, None, False, True),
           ('names-a', False, False, fa, None),
           ('names-b+shadow', True, False, fb, None),
           ('variants+glob', False, True, None, ['None', 'Some', 'Ok', 'Err', 'Ordering', 'Equal', 'Less', 'Greater', 'Option'] + vn[:6])]
    # custom methods imported at the derive site under single identifiers that the generated code also uses for its own
    # parameters and locals (`f`, `other`, `state`, `source`, `builder`, `arg`): `method = other` must still call the user's function
    for ident in METHOD_IDENTS:
        ctx.append((f'method-named:{ident}', False, False, None, None, False, False, [ident] + [x for x in METHOD_IDENTS if x != ident]))
    # fields named exactly like the parameters and locals of the generated methods, in two rotations, on every template (also the Debug
    # presentation variants): a template that binds a field under its own name would shadow `f`, `builder`, `other`, ..
    ctx.append(('names-generated-locals-a', False, False, ['f', 'builder', 'arg', 'other', 'state', 'source'], None, True))
    ctx.append(('names-generated-locals-b', True, False, ['arg', 'other', 'state', 'source', 'f', 'builder'], None, True))
    # variants named like the associated items the generated signatures mention (`Self::Target` next to a variant `Target` is ambiguous)
    ctx.append(('variants-named-like-associated-items', False, False, None, ['Target', 'Output', 'Item', 'Error'], True))
    # fields named like the items the type's own default expressions call (`src(3)` next to a field `src`): an expansion that binds
    # field values to locals named after the fields would capture them
    ctx.append(('names-of-expression-items', False, False, ['src', 'D', 'dflt'], None, True, False, None, True))
    # raw identifiers as field names: bindings derived from them (`_r#type` is not an identifier) must still be well-formed
    ctx.append(('raw-identifiers', False, False, ['r#type', 'r#fn', 'r#match', 'r#loop', 'r#_0'], None, True))
    # names closed under the binding patterns of the generated code: a field x next to fields called like the
    # bindings the templates derive from x (format_ident! patterns harvested from /repo/src)
    _, _, pats, _ = hostile_names()
    for pi, pat in enumerate(pats):
        one = pat.replace('{}', 'x')
        two = pat.replace('{}', one)
        others = [q.replace('{}', 'x') for q in pats if q != pat]
        ctx.append((f'closed-under:{pat}', pi % 2 == 1, False, ['x', one, two] + others, None, True))
    if tier != 'quick':
        ctx.append(('names-a+shadow+glob', True, True, fa, ['Less', 'Equal', 'Greater', 'Some', 'None'] + vn[:4]))
        fr = list(fields)
        rng.shuffle(fr)
        ctx.append(('names-random', False, False, fr, None))
    return ctx


def gen(tier, seed):
    fields, upper, patterns, idents = hostile_names()
    mods = []
    n = 0
    tmpl = templates()
    ctxs = contexts(fields, upper, tier, seed)
    for ti, (name, mk) in enumerate(tmpl):
        for ci, ctx in enumerate(ctxs):
            tag, shadow, glob, fns, vns = ctx[:5]
            exact = len(ctx) > 5 and ctx[5]
            inherent = len(ctx) > 6 and ctx[6]
            malias = ctx[7] if len(ctx) > 7 else None
            imp = len(ctx) > 8 and ctx[8]
            if imp and not name.startswith('Default:'):
                continue
            if tag == 'raw-identifiers' and name.startswith('Debug:'):
                continue      # default keys of raw identifiers are not defined by the property
            if name.startswith('DebugNoDefaultKey:') and tag not in ('raw-identifiers', 'shadow') and not tag.startswith('names-generated-locals'):
                continue
            if tag.startswith('method-named:'):
                if not name.startswith(METHOD_IDENT_USERS[tag.split(':')[1]]):
                    continue
            elif tier == 'quick' and (ti + ci) % 2 == 1 and tag not in ('shadow', 'inherent-methods', 'raw-identifiers', 'names-of-expression-items', 'names-generated-locals-a', 'names-generated-locals-b', 'variants-named-like-associated-items'):
                continue
            model.TYPE_WRAP = make_wrap(shadow, glob, inherent)
            try:
                m = mk(f'm{n:04d}', f'{name} @ {tag}', make_xf(fns, vns, ti * 5 + ci, exact=exact, method_alias=malias, import_expr_items=imp))
            finally:
                model.TYPE_WRAP = None
            if m is None:
                continue
            m.classes = list(m.classes) + classes_for(name, tag, shadow, glob)
            mods.append(m)
            n += 1
    # fieldless (all-unit) and tag-only enums: the discriminant fast paths of the Ord / PartialOrd handlers, in shadowing
    # modules and with variants called None / Some / Ok glob-imported at the derive site
    from . import p_c04
    saved = list(p_c04.VN)
    try:
        for ci, (shadow, glob, vn) in enumerate([(True, False, saved), (False, True, ['None', 'Some', 'Ok', 'Err']), (True, True, ['Less', 'Equal', 'Greater', 'Option'])]):
            p_c04.VN[:] = vn
            for pi, (payloads, repr_, ds) in enumerate([(['none', 'none', 'none'], None, None), (['none', 'none'], 'u8', [200, 3]), (['none'], None, None), (['u8', 'none'], None, None)]):
                for mode in ('pord', 'ord', 'ordonly'):
                    if tier == 'quick' and (ci + pi + len(mode)) % 2 == 1 and not (payloads == ['none', 'none', 'none'] and mode == 'pord'):
                        continue
                    model.TYPE_WRAP = make_wrap(shadow, glob, inherent=(ci == 0))
                    try:
                        m = p_c04.emit(f'm{n:04d}', payloads, repr_, ds, mode)
                    finally:
                        model.TYPE_WRAP = None
                    m.cfgid = 'OrdEnum:' + m.cfgid + f' @ shadow={int(shadow)} glob={int(glob)} inherent={int(ci == 0)} variants={vn[:len(payloads)]}'
                    mods.append(m)
                    n += 1
    finally:
        p_c04.VN[:] = saved
    # unions (byte-wise Debug / PartialEq / Hash, `*self` Clone, Default): the same hostile derive sites
    from . import p_c20

    class _U:
        kind, name, generics, variants = 'union', 'Un', '', []
    for ui, (tys, nm, shadow, inherent) in enumerate([(['u8', 'u16'], None, True, False), (['[u8; 3]', 'u16'], 'Rn', False, True), (['u32', 'u8'], False, True, True)]):
        if tier == 'quick' and ui == 2:
            continue
        w = make_wrap(shadow, False, inherent)
        def dw(decl, w=w):
            const = '\n'.join(l for l in decl.splitlines() if l.startswith('const _'))
            body = '\n'.join(l for l in decl.splitlines() if not l.startswith('const _'))
            return w(body + '\n', _U) + const + '\n'
        m = p_c20.emit(f'm{n:04d}', tys, nm, dbg_bytes=[p_c20.PATS[2]], default_idx=ui % len(tys), with_default_expr=False, pretty_max=4, decl_wrap=dw)
        m.cfgid = 'Union:' + m.cfgid + f' @ shadow={int(shadow)} inherent={int(inherent)}'
        mods.append(m)
        n += 1
    n = len(mods)
    mods += prelude_typed_field_modules(n)
    n = len(mods)
    mods += field_type_inherent_modules(n)
    n = len(mods)
    mods += named_type_modules(n, upper)
    n = len(mods)
    mods += primitive_alias_modules(n)
    n = len(mods)
    mods += generic_modules(n, upper)
    for m in mods:
        m.functions = FUNCTIONS
    return mods, dict(bare_macros_in_templates=sorted(BARE_MACROS), harvested_identifiers=len(idents), field_name_pool=fields[:60], type_name_pool=upper[:40], format_ident_patterns=patterns)


# (template, identifier) pairs in which the identifier is a parameter / local of that trait's generated method
METHOD_LOCALS = {('PartialEq', 'other'), ('Ord', 'other'), ('Hash', 'state'), ('Clone', 'source'), ('Debug', 'f'), ('Debug', 'builder')}


def classes_for(name, tag, shadow, glob):
    ks = []
    if tag.startswith('method-named:') and (name.split(':')[0], tag.split(':')[1]) in METHOD_LOCALS:
        ks.append('c19:method-path-named-like-generated-local')
    if name.startswith('Ord:') and '/pord' in name and (shadow or glob):
        ks.append('c19:partial-ord-unqualified-some-none')
    return ks


RULE = ('one config = a request from the C02..C10 grammars re-instantiated in a naming context: {derive site inside a module whose items shadow Option/Some/None/Result/Ok/Err/Ordering/Clone/Default/Debug/... and core/std/cmp/fmt/...; '
        'named fields renamed to identifiers harvested on this run from the quote! templates and format_ident! patterns of /repo/src; enum variants named None/Some/Ok/Equal/... and glob-imported at the derive site; combinations}, '
        'plus generic types whose type / const / lifetime parameters are named like generated identifiers (H, V, M, ...). Behaviour must equal the oracle for all values in each context; a context that does not compile is reported as a compiler verdict. '
        'Non-trivial = all harnesses passed with witnesses SATISFIED.')
BOUNDS = dict(no_std='emulated: `extern crate educe as std;` at the crate root makes every `::std::..` / `std::..` path of generated code unresolvable (the alloc crate is not linked either way)', outside=['a real #![no_std] build of the harness crate', 'identifier choices beyond the harvested pool', 'macro-hygiene of user macros'])
ASSUME = ['as for C02..C10; oracle and harness code live outside the hostile module and refer to the type by path']


def main(tier, seed, keep=False):
    from .runner import run_e1
    mods, extra = gen(tier, seed)
    # the crate root renames `std`: an absolute `::std::..` path in generated code no longer resolves (what `#![no_std]` would do),
    # while the prelude and the harness code (which say `stdx`) are unaffected
    return run_e1('C19', tier, seed, mods, RULE, BOUNDS, ASSUME, need_stubbing=True, keep=keep, harness_timeout=600 if tier == 'quick' else 1200, extra=extra,
                  lib_attrs='extern crate educe as std;\n')
