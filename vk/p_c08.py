"""C08 — Default builds exactly the designated value (symbolic environment)."""
import random
from .model import F, V, T, Spelling, render_type, pattern, construct
from .runner import Harness, Module
from . import shapes as S

FUNCTIONS = ['<T as ::core::default::Default>::default (educe expansion: struct, enum, union)', 'T::new (emitted with Default(new))']

PRE = '''pub static mut ENV: [u8; 16] = [0; 16];
pub fn src(j: usize) -> u8 { unsafe { ENV[j] } }
pub fn fill_env() { let mut i = 0; while i < 16 { unsafe { ENV[i] = kani::any(); } i += 1; } }
#[derive(PartialEq, Debug, Clone, Copy)]
pub struct D<const I: usize>(pub u8);
impl<const I: usize> Default for D<I> { fn default() -> Self { D(src(I)) } }
'''


def build(kind, vspecs, marked, type_expr, new, mark_single=False):
    """vspecs: list of (vkind, [codes]) codes: d default, e expression. marked: index of default variant / union field."""
    variants = []
    slot = 0
    eslot = 15
    for k, (vk, fl) in enumerate(vspecs):
        fields = []
        for i, c in enumerate(fl):
            a = {}
            f = F(f'D<{slot}>', S.fname(i, k, len(fl)) if vk == 'named' else None)
            f.slot = slot
            designated = (kind != 'enum' or k == marked)
            if kind == 'union':
                designated = (i == marked)
            if c == 'e' and designated and not type_expr:
                f.a['Default'] = {'expr': f'D(src({eslot}))'}
                f.src = eslot
                eslot -= 1
            else:
                f.src = slot
                if kind == 'union' and designated and not type_expr and (len(fl) > 1 or mark_single):
                    f.a['Default'] = {}
            slot += 1
            fields.append(f)
        va = {}
        if kind == 'enum' and k == marked and not type_expr and (len(vspecs) > 1 or mark_single):
            va['Default'] = {}
        variants.append(V(S.VNAMES[k], vk, fields, **va))
    tp = {}
    t = T(kind, 'Ty', variants, [('Default', tp)])
    if type_expr:
        # a value built from slots no field default or field expression uses
        v = variants[marked if kind == 'enum' else 0]
        if kind == 'union':
            f = v.fields[marked]
            tp['expr'] = f'Ty {{ {f.name}: D(src(12)) }}'
            f.src = 12
        else:
            exprs = []
            for i, f in enumerate(v.fields):
                f.src = 9 + i
                exprs.append(f'D(src({9 + i}))')
            tp['expr'] = construct(t, v, exprs)
    if new:
        tp['new'] = True
    if kind != 'union':
        t.extra_attrs = '#[derive(PartialEq, Debug)]\n'
    return t


def emit(modname, cfgid, kind, vspecs, marked, type_expr, new, sp=None, pre='', mark_single=False, xf=None):
    t = build(kind, vspecs, marked, type_expr, new, mark_single)
    if xf:
        xf(t)
    body = pre + PRE + render_type(t, sp)
    h = Harness('h_default', unwind=18, covers=['reached'])
    if kind == 'union':
        f = t.variants[0].fields[marked]
        chk = f'    let got = unsafe {{ d.{f.name} }};\n    assert!(got.0 == src({f.src}), "union default did not initialise the designated field with its own expression / default");\n'
        if new:
            chk += f'    let n = Ty::new();\n    assert!(unsafe {{ n.{f.name} }}.0 == src({f.src}), "new() differs from default()");\n'
    else:
        v = t.variants[marked if kind == 'enum' else 0]
        conds = ' && '.join(f'a{i}.0 == src({f.src})' for i, f in enumerate(v.fields)) or 'true'
        other = '' if (kind == 'struct' or len(t.variants) == 1) else '        _ => false,\n'
        chk = (f'    let ok = match &d {{\n        {pattern(t, v, "a")} => {conds},\n{other}    }};\n'
               '    assert!(ok, "default() is not the designated variant with every field from its own expression / Default");\n')
        if new:
            chk += '    let n = Ty::new();\n    assert!(n == d, "new() differs from default()");\n'
    body += h.attrs() + f'''pub fn h_default() {{
    fill_env();
    let d = <Ty as Default>::default();
    kani::cover!(true, "reached");
{chk}}}
'''
    return Module(modname, cfgid, body, [h], sample=dict(type_definition=render_type(t, sp)), functions=FUNCTIONS)


# literal table: (literal, field type, expected-value expression, needs helper type)
LIT_PRE = '''#[derive(PartialEq, Debug)] pub struct Wi(pub i64);
impl From<i32> for Wi { fn from(v: i32) -> Self { Wi(v as i64 + 1000) } }
impl From<u16> for Wi { fn from(v: u16) -> Self { Wi(v as i64 + 2000) } }
#[derive(PartialEq, Debug)] pub struct Wf(pub f64);
impl From<f64> for Wf { fn from(v: f64) -> Self { Wf(v + 0.5) } }
#[derive(PartialEq, Debug)] pub struct Ws(pub usize, pub u8);
impl From<&str> for Ws { fn from(v: &str) -> Self { Ws(v.len(), v.as_bytes()[0]) } }
#[derive(PartialEq, Debug)] pub struct Wb(pub u8);
impl From<bool> for Wb { fn from(v: bool) -> Self { Wb(if v { 7 } else { 9 }) } }
#[derive(PartialEq, Debug)] pub struct Wbs(pub u8);
#[derive(PartialEq, Debug, Default)] pub struct Ws0(pub u8);
impl From<&str> for Ws0 { fn from(v: &str) -> Self { Ws0(77 + v.len() as u8) } }
impl From<&[u8; 2]> for Wbs { fn from(v: &[u8; 2]) -> Self { Wbs(v[0] ^ v[1]) } }
'''
LITS = [
    ('5', 'u8', '5u8'), ('5', 'i64', '5i64'), ('5', 'Wi', 'Wi(1005)'), ('5u16', 'u16', '5u16'), ('5u16', 'Wi', 'Wi(2005)'), ('5u16', 'u32', '5u32'),
    ('1.5', 'f64', '1.5f64'), ('1.5', 'f32', '1.5f32'), ('1.5', 'Wf', 'Wf(2.0)'), ('1.5f32', 'f64', '1.5f64'),
    # a suffixed literal keeps its own precision: 0.1f32 widened is not 0.1f64
    ('0.1f32', 'f64', '(0.1f32 as f64)'), ('16777217.0f32', 'f64', '16777216.0f64'), ('0.1f32', 'f32', '0.1f32'),
    ('"hi"', "&'static str", '"hi"'), ('"hi"', 'Ws', 'Ws(2, 104)'),
    ('true', 'bool', 'true'), ('true', 'Wb', 'Wb(7)'), ('false', 'bool', 'false'), ('false', 'Wb', 'Wb(9)'), ('false', 'Option<bool>', 'Some(false)'), ('0', 'Wi', 'Wi(1000)'), ('""', 'Ws0', 'Ws0(77)'),
    ("'c'", 'char', "'c'"), ("'c'", 'u32', '99u32'),
    ("b'x'", 'u8', '120u8'), ("b'x'", 'u16', '120u16'),
    ('b"ab"', "&'static [u8; 2]", 'b"ab"'), ('b"ab"', 'Wbs', 'Wbs(3)'),
]
LIT_FORMS = [' = {}', '(expression = {})', '(expr({}))', '(expr = {})', '(expression({}))']


def literal_modules(start, tier):
    mods = []
    n = start
    for li, (lit, ty, want) in enumerate(LITS):
        forms = LIT_FORMS if tier != 'quick' else ([LIT_FORMS[li % 3], LIT_FORMS[(li + 1) % 3]] if lit not in ('false', '0', '""', 'true') else LIT_FORMS[:3])
        for fi, form in enumerate(forms):
            shape = (li + fi) % 3
            attr = '#[educe(Default' + form.format(lit) + ')]'
            if shape == 0:
                decl = f'#[derive(Educe)]\n#[educe(Default)]\npub struct Ty {{\n    pub pad: u8,\n    {attr}\n    pub f: {ty},\n}}\n'
                get = 'd.f'
            elif shape == 1:
                decl = f'#[derive(Educe)]\n#[educe(Default)]\npub struct Ty(pub u8, {attr} pub {ty});\n'
                get = 'd.1'
            else:
                decl = f'#[derive(Educe)]\n#[educe(Default)]\npub enum Ty {{\n    Alpha,\n    #[educe(Default)]\n    Beta {{\n        {attr}\n        f: {ty},\n    }},\n}}\n'
                get = 'match d { Ty::Beta { f } => f, _ => { assert!(false, "wrong default variant"); return; } }'
            h = Harness('h_lit', unwind=6, covers=['reached'])
            body = LIT_PRE + decl + h.attrs() + f'''pub fn h_lit() {{
    let d = <Ty as Default>::default();
    kani::cover!(true, "reached");
    let got: {ty} = {get};
    let want: {ty} = {want};
    assert!(got == want, "literal default not routed as `natural type: verbatim, otherwise Into`");
}}
'''
            cls = ['c08:suffixed-literal-other-numeric-type'] if (lit, ty) in (('5u16', 'u32'), ('1.5f32', 'f64'), ('0.1f32', 'f64'), ('16777217.0f32', 'f64')) else []
            mods.append(Module(f'm{n:04d}', f'literal {lit} -> {ty} via `Default{form.format(lit)}` shape{shape}', body, [h],
                               sample=dict(type_definition=decl), functions=FUNCTIONS, classes=cls))
            n += 1
    # the derive input produced by a user macro: an `$e:expr` fragment reaches the derive inside an invisible (None-delimited) group
    for k, (frag, expr, want) in enumerate([('expr', 'BASE + 3', '7'), ('expr', '(BASE + 3)', '7'), ('expr', '5', '5'), ('literal', '9', '9'), ('tt', 'BASE', '4')]):
        for form in ([' = $e', '(expression = $e)'] if tier == 'quick' else [' = $e', '(expression = $e)', '(expr($e))']):
            if tier == 'quick' and (k + len(form)) % 2:
                continue
            decl = ('pub const BASE: u8 = 4;\nmacro_rules! mk {\n    ($e:' + frag + ') => {\n        #[derive(Educe)]\n        #[educe(Default)]\n'
                    '        pub struct Ty {\n            #[educe(Default' + form + ')]\n            pub a: u8,\n            pub b: u8,\n        }\n    };\n}\nmk!(' + expr + ');\n')
            h = Harness('h_macro', unwind=4, covers=['reached'])
            body = decl + h.attrs() + f'''pub fn h_macro() {{
    let d = <Ty as Default>::default();
    kani::cover!(true, "reached");
    assert!(d.a == {want} && d.b == 0, "default expression forwarded through a macro_rules fragment");
}}
'''
            mods.append(Module(f'm{n:04d}', f'`Default{form}` with $e:{frag} = `{expr}` forwarded by a user macro_rules (None-delimited group)', body, [h], sample=dict(type_definition=decl), functions=FUNCTIONS))
            n += 1
    # a forwarded fragment used as an *operand* of the user's expression (`$e * 2` with `$e = 1 + BASE`): the fragment's grouping is part of
    # the expression the user wrote (4 + ... , not 1 + BASE * 2), at field level (three spellings) and at type level
    decl = ('pub const BASE: u8 = 4;\nmacro_rules! mk {\n    ($e:expr) => {\n        #[derive(Educe)]\n        #[educe(Default)]\n        pub struct Ty {\n'
            '            #[educe(Default = $e * 2)]\n            pub a: u8,\n            #[educe(Default(expression = 100 - $e))]\n            pub b: u8,\n            #[educe(Default(expr($e * $e)))]\n            pub c: u8,\n        }\n'
            '        #[derive(Educe)]\n        #[educe(Default(expression = Tl($e * 3, 7)))]\n        pub struct Tl(pub u8, pub u8);\n        pub const WANT: [u8; 4] = [$e * 2, 100 - $e, $e * $e, $e * 3];\n    };\n}\nmk!(1 + BASE);\n')
    h = Harness('h_operand', unwind=4, covers=['reached'])
    body = decl + h.attrs() + '''pub fn h_operand() {
    let d = <Ty as Default>::default();
    let t = <Tl as Default>::default();
    kani::cover!(true, "reached");
    assert!(WANT[0] == 10 && WANT[1] == 95 && WANT[2] == 25 && WANT[3] == 15);
    assert!(d.a == WANT[0] && d.b == WANT[1] && d.c == WANT[2], "a forwarded `$e:expr` used as an operand lost its grouping (field level)");
    assert!(t.0 == WANT[3] && t.1 == 7, "a forwarded `$e:expr` used as an operand lost its grouping (type level)");
}
'''
    mods.append(Module(f'm{n:04d}', 'a forwarded $e:expr = `1 + BASE` used as an operand of the default expression (`$e * 2`, `100 - $e`, `$e * $e`, type-level `Tl($e * 3, 7)`)', body, [h], sample=dict(type_definition=decl), functions=FUNCTIONS,
                       classes=['c08:forwarded-fragment-operand-grouping']))
    n += 1
    # wide shapes: 13 fields (positions >= 10 sort before 2 as strings), tuple / named / enum variant; every position has its own value
    for shape in ('tuple', 'named', 'variant'):
        for mix in (False, True):
            if tier == 'quick' and shape == 'variant' and not mix:
                continue
            fl = []
            for i in range(13):
                if mix and i % 2 == 0:
                    fl.append(('', f'K<{i}>', f'K({100 + i})'))
                else:
                    fl.append((f'#[educe(Default = {10 + i})] ', 'u8', str(10 + i)))
            kdecl = 'pub struct K<const I: u8>(pub u8);\nimpl<const I: u8> PartialEq for K<I> { fn eq(&self, o: &Self) -> bool { self.0 == o.0 } }\nimpl<const I: u8> Default for K<I> { fn default() -> Self { K(100 + I) } }\n'
            if shape == 'tuple':
                decl = kdecl + '#[derive(Educe)]\n#[educe(Default)]\npub struct Ty(' + ', '.join(f'{a}pub {t}' for a, t, _ in fl) + ');\n'
                acc = [f'd.{i}' for i in range(13)]
                pre = ''
            elif shape == 'named':
                decl = kdecl + '#[derive(Educe)]\n#[educe(Default)]\npub struct Ty { ' + ', '.join(f'{a}pub f{i}: {t}' for i, (a, t, _) in enumerate(fl)) + ' }\n'
                acc = [f'd.f{i}' for i in range(13)]
                pre = ''
            else:
                decl = kdecl + '#[derive(Educe)]\n#[educe(Default)]\npub enum Ty { Alpha, #[educe(Default)] Beta(' + ', '.join(f'{a}{t}' for a, t, _ in fl) + ') }\n'
                acc = [f'x{i}' for i in range(13)]
                pre = '    let (' + ', '.join(acc) + ') = match d { Ty::Beta(' + ', '.join(acc) + ') => (' + ', '.join(acc) + '), _ => { assert!(false, "wrong default variant"); return; } };\n'
            h = Harness('h_wide', unwind=4, covers=['reached'])
            checks = ''.join(f'    assert!({acc[i]} == {w}, "field {i} of a 13-field {shape} did not get its own default");\n' for i, (_, _, w) in enumerate(fl))
            body = decl + h.attrs() + 'pub fn h_wide() {\n    let d = <Ty as Default>::default();\n    kani::cover!(true, "reached");\n' + pre + checks + '}\n'
            mods.append(Module(f'm{n:04d}', f'13-field {shape} ' + ('alternating Default-typed / expression fields' if mix else 'every field with its own expression'), body, [h], sample=dict(type_definition=decl), functions=FUNCTIONS))
            n += 1
    # `new` with an explicit boolean: `new = false` / `new(false)` generate no `new()` (the user's own inherent `new` must not clash),
    # `new = true` / `new(true)` generate it
    for form in ['new = false', 'new(false)', 'new = true', 'new(true)']:
        off = 'false' in form
        own = 'impl Ty { pub fn new() -> Self { Ty { a: 9, b: 1 } } }\n' if off else ''
        decl = f'#[derive(Educe)]\n#[educe(Default({form}))]\npub struct Ty {{\n    pub a: u8,\n    #[educe(Default = 7)]\n    pub b: u8,\n}}\n' + own
        h = Harness('h_new', unwind=4, covers=['reached'])
        want = '(9, 1)' if off else '(0, 7)'
        body = decl + h.attrs() + f'''pub fn h_new() {{
    let d = <Ty as Default>::default();
    let n = Ty::new();
    kani::cover!(true, "reached");
    assert!((d.a, d.b) == (0, 7), "default() is not the field-wise default");
    assert!((n.a, n.b) == {want}, "`{form}`: new() is not the expected function");
}}
'''
        mods.append(Module(f'm{n:04d}', f'`Default({form})`: ' + ("no new() generated (user's own inherent new)" if off else 'new() generated'), body, [h], sample=dict(type_definition=decl), functions=FUNCTIONS))
        n += 1
    return mods


def vid(kind, vspecs, marked, type_expr, new, ms):
    def one(v):
        vk, fl = v
        if vk == 'unit':
            return 'U'
        return ('N{' if vk == 'named' else 'T(') + ''.join(fl) + ('}' if vk == 'named' else ')')
    return f'{kind}[' + ';'.join(one(v) for v in vspecs) + f']/marked={marked}/typeexpr={int(type_expr)}/new={int(new)}' + ('/marksingle' if ms else '')


def configs(tier, seed):
    out = []
    fls = [['d'], ['e'], ['d', 'e'], ['e', 'd'], ['e', 'e'], ['d', 'd'], ['d', 'e', 'd'], ['e', 'd', 'e'], ['e', 'e', 'd'], ['d', 'd', 'e']]
    n = 0
    for fl in fls:
        for vk in ('named', 'tuple'):
            for te in (False, True):
                out.append(('struct', [(vk, fl)], 0, te, n % 2 == 0, False)); n += 1
    out.append(('struct', [('unit', [])], 0, False, True, False))
    out.append(('struct', [('unit', [])], 0, True, False, False))
    # enums: marker at each position, each kind at the marked position
    vpool = [('unit', [])] + [(vk, fl) for vk in ('named', 'tuple') for fl in fls[:8]]
    for i, v in enumerate(vpool):
        for pos in range(3):
            others = [vpool[(i * 3 + 1 + pos) % len(vpool)], vpool[(i * 5 + 2) % len(vpool)]]
            vs = list(others)
            vs.insert(pos, v)
            if (i + pos) % 3 == 0:
                vs = vs[:2] if pos < 2 else vs[1:]
                p2 = min(pos, 1)
            else:
                p2 = pos
            out.append(('enum', vs, p2, (i + pos) % 4 == 0, (i + pos) % 2 == 0, False)); n += 1
        out.append(('enum', [v], 0, False, i % 2 == 0, i % 3 == 0))
        # a single-variant enum with a type-level expression: the expression wins over the single-variant shortcut
        out.append(('enum', [v], 0, True, i % 2 == 1, False))
    # unions
    for nf in (1, 2, 3):
        for m in range(nf):
            for c in ('d', 'e'):
                for te in (False, True):
                    fl = ['d'] * nf
                    fl[m] = c
                    out.append(('union', [('named', fl)], m, te, (m + nf) % 2 == 0, nf == 1 and c == 'd' and not te))
    if tier == 'quick':
        rng = random.Random(seed * 17 + 2)
        core = out[::3]
        # the single-field shortcuts of every handler (no designation needed) are always in: with and without an expression
        core += [o for o in out if o not in core and all(len(fl) == 1 for _, fl in o[1]) and len(o[1]) == 1]
        core += [o for o in out if o not in core and o[0] == 'enum' and len(o[1]) == 1 and o[3]][::2]
        extra = rng.sample(out, 10)
        out = core + [e for e in extra if e not in core]
    return out


def gen(tier, seed):
    mods = []
    for n, (kind, vs, marked, te, new, ms) in enumerate(configs(tier, seed)):
        mods.append(emit(f'm{n:04d}', vid(kind, vs, marked, te, new, ms), kind, vs, marked, te, new, mark_single=ms))
    mods += literal_modules(len(mods), tier)
    return mods


RULE = ('symbolic environment: ENV[16] arbitrary bytes; field type D<I> has Default = D(ENV[I]); field expressions are D(src(J)) with their own slot J; type-level expressions build the value from further slots. '
        'one config = struct/enum/union shape x marker position x per-field {default, expression} x type-level expression on/off x new on/off. default() must be the designated variant/field with every field equal to its own slot, for all ENV. '
        'Literal table configs (literal kind x field type x spelling) are closed terms that CBMC merely evaluates; they are counted in closed_term_obligations. Non-trivial = harness passed and reached.')
BOUNDS = dict(max_fields='3; plus 13-field tuple / named / enum-variant modules', max_variants=3, env_slots=16, outside=['user expressions other than calls and literals', '>3 fields/variants'])
ASSUME = ['Kani 0.68 / CBMC 6.11 / CaDiCaL; rustc nightly-2026-08-21 x86_64 dev profile',
          'the value quantifier is introduced by the harness (symbolic environment); the literal table has nothing symbolic',
          'oracle (designated variant/field and source slot per field) written from the config by vk/p_c08.py']


def main(tier, seed, keep=False):
    from .runner import run_e1
    mods = gen(tier, seed)
    closed = sum(1 for m in mods if m.cfgid.startswith('literal'))
    return run_e1('C08', tier, seed, mods, RULE, BOUNDS, ASSUME, keep=keep, extra=dict(closed_term_obligations=closed))
