"""E1 runner: generated modules -> one harness crate -> cargo kani (CBMC/CaDiCaL decides) ->
export-json results -> concrete-playback replay against the native build -> evidence."""
import json
import os
import re
import shutil
import subprocess
import sys
import time

VERIF = os.path.dirname(os.path.dirname(os.path.abspath(__file__)))
REPO = os.environ.get('VERIF_REPO', '/repo')
WORK = os.path.join(VERIF, 'work')
MAX_REPLAYS = int(os.environ.get('VERIF_MAX_REPLAYS', '3'))
NCPU = int(os.environ.get('VERIF_JOBS', str(os.cpu_count() or 8)))


def copy_lock(dst_dir):
    """copy the repository's Cargo.lock (untracked in /repo, so absent from git snapshots) next to a scratch Cargo.toml"""
    for cand in (os.path.join(REPO, 'Cargo.lock'), '/repo/Cargo.lock'):
        if os.path.exists(cand):
            shutil.copy(cand, os.path.join(dst_dir, 'Cargo.lock'))
            return True
    return False


class Harness:
    def __init__(self, name, unwind=None, covers=(), stubs=(), kind='assert', timeout=None,
                 solver=None):
        self.name = name
        self.unwind = unwind
        self.covers = list(covers)   # descriptions of kani::cover! that must be SATISFIED
        self.stubs = list(stubs)     # [(original path, replacement path)]
        self.kind = kind
        self.timeout = timeout
        self.solver = solver

    def attrs(self):
        s = '#[cfg_attr(kani, kani::proof)]\n'
        if self.unwind is not None:
            s += f'#[cfg_attr(kani, kani::unwind({self.unwind}))]\n'
        for o, r in self.stubs:
            s += f'#[cfg_attr(kani, kani::stub({o}, {r}))]\n'
        if self.solver:
            s += f'#[cfg_attr(kani, kani::solver({self.solver}))]\n'
        return s


class Module:
    def __init__(self, name, cfgid, body, harnesses, sample=None, classes=(), functions=()):
        self.name = name
        self.cfgid = cfgid
        self.body = body
        self.harnesses = harnesses
        self.sample = sample or {}
        self.classes = list(classes)     # role keys used to match known findings
        self.functions = list(functions)  # generated functions this module exercises


PRELUDE = '''#![allow(dead_code, unused_imports, unused_variables, unused_mut, unreachable_patterns, unreachable_code, non_snake_case, non_camel_case_types, non_upper_case_globals, unused_parens, unused_unsafe)]
#![allow(clippy::all)]
use educe::Educe;
#[cfg(not(kani))]
use crate::support::kani;
use crate::support::sup::*;
use core::cmp::Ordering;
'''

FEATURES = '#![cfg_attr(kani, feature(formatting_options, pattern))]\n#![cfg_attr(stubcheck, feature(pattern))]\n'

CARGO_TOML = '''[package]
name = "{name}"
version = "0.0.0"
edition = "2021"

[lib]
path = "src/lib.rs"

[[bin]]
name = "replay"
path = "src/replay.rs"

[dependencies]
educe = {{ path = "{repo}"{features} }}

[workspace]

[lints.rust]
unexpected_cfgs = {{ level = "allow", check-cfg = ['cfg(kani)', 'cfg(stubcheck)'] }}

[profile.dev]
debug = false
[profile.release]
debug = false
'''

REPLAY_MAIN = '''fn main() {{
    let name = std::env::args().nth(1).expect("harness name");
    #[cfg(stubcheck)]
    if name == "--stubcheck" {{
        let n = {crate}::support::dbg::stub_selfcheck();
        println!("STUBCHECK-OK comparisons={{}}", n);
        return;
    }}
    let vals = std::env::var("VERIF_REPLAY_VALS").unwrap_or_default();
    {crate}::support::kani::load(&vals);
    let r = std::panic::catch_unwind(|| {crate}::dispatch(&name));
    let exhausted = {crate}::support::kani::EXHAUSTED.with(|e| *e.borrow());
    match r {{
        Ok(()) => {{ println!("REPLAY-OK exhausted={{}}", exhausted); }}
        Err(e) => {{
            if e.downcast_ref::<{crate}::support::kani::AssumeFailed>().is_some() {{
                println!("REPLAY-ASSUME-FAILED");
                std::process::exit(3);
            }}
            println!("REPLAY-PANIC exhausted={{}}", exhausted);
            std::process::exit(101);
        }}
    }}
}}
'''


def sh(cmd, cwd=None, env=None, timeout=None, capture=True):
    e = dict(os.environ)
    e['CARGO_NET_OFFLINE'] = 'true'
    e.setdefault('CARGO_TERM_COLOR', 'never')
    if env:
        e.update(env)
    if timeout is not None:
        timeout = min(timeout, 1_000_000)    # poll() takes milliseconds in a C int
    try:
        p = subprocess.run(cmd, cwd=cwd, env=e, timeout=timeout, stdout=subprocess.PIPE if capture else None,
                           stderr=subprocess.STDOUT if capture else None, text=True, shell=isinstance(cmd, str))
        return p.returncode, p.stdout or ''
    except subprocess.TimeoutExpired as ex:
        out = ex.stdout or ''
        if isinstance(out, bytes):
            out = out.decode('utf-8', 'replace')
        return 124, out + '\n<<timeout>>'


def write_crate(d, modules, crate_name, features=None, lib_attrs='', extra_files=None, no_default=False):
    os.makedirs(os.path.join(d, 'src'), exist_ok=True)
    feat = ''
    if features is not None:
        feat = ', default-features = false, features = [' + ', '.join(f'"{f}"' for f in features) + ']'
    with open(os.path.join(d, 'Cargo.toml'), 'w') as f:
        f.write(CARGO_TOML.format(name=crate_name, repo=REPO, features=feat))
    copy_lock(d)
    shutil.copy(os.path.join(VERIF, 'vk', 'support.rs'), os.path.join(d, 'src', 'support.rs'))
    # `stdx` is the standard library under a name generated code cannot know (C19 renames `std` itself at the crate root)
    lib = FEATURES + '#![allow(dead_code, unused_imports, unused_macros, unused_extern_crates)]\n' + lib_attrs + 'pub extern crate std as stdx;\npub mod support;\n'
    disp = 'pub fn dispatch(name: &str) {\n    match name {\n'
    for m in modules:
        lib += f'pub mod {m.name};\n'
        with open(os.path.join(d, 'src', m.name + '.rs'), 'w') as f:
            f.write(f'// config: {m.cfgid}\n' + PRELUDE + m.body)
        for h in m.harnesses:
            disp += f'        "{m.name}::{h.name}" => {m.name}::{h.name}(),\n'
    disp += '        _ => panic!("unknown harness {}", name),\n    }\n}\n'
    lib += '#[cfg(not(kani))]\n' + disp
    with open(os.path.join(d, 'src', 'lib.rs'), 'w') as f:
        f.write(lib)
    with open(os.path.join(d, 'src', 'replay.rs'), 'w') as f:
        f.write('#[cfg(not(kani))]\n' + REPLAY_MAIN.format(crate=crate_name) + '#[cfg(kani)]\nfn main() {}\n')
    for rel, content in (extra_files or {}).items():
        p = os.path.join(d, rel)
        os.makedirs(os.path.dirname(p), exist_ok=True)
        with open(p, 'w') as f:
            f.write(content)


ERR_RE = re.compile(r'^error(\[E\d+\])?: (.*)$')
LOC_RE = re.compile(r'^\s*--> src/(\w+)\.rs:(\d+):(\d+)')


def parse_rustc_errors(out):
    """-> {module: [message, ...]} for rustc error diagnostics located in src/<module>.rs"""
    res = {}
    cur = None
    unlocated = []
    for line in out.splitlines():
        m = ERR_RE.match(line)
        if m:
            if cur is not None and cur[1] is None:
                unlocated.append(cur[0])
            cur = [(m.group(1) or '') + ' ' + m.group(2), None]
            continue
        m = LOC_RE.match(line)
        if m and cur is not None and cur[1] is None:
            cur[1] = m.group(1)
            res.setdefault(m.group(1), []).append(cur[0].strip())
    if cur is not None and cur[1] is None:
        unlocated.append(cur[0])
    return res, unlocated


class KaniRun:
    """Result of running all harnesses of a crate."""

    def __init__(self):
        self.harness = {}      # full name -> dict(status, failed_checks, covers, stats, duration_ms)
        self.compile_failed = {}  # module -> messages
        self.fatal = None
        self.wall_s = 0.0
        self.build_s = 0.0


def run_kani(d, modules, target_dir, harness_timeout=120, need_stubbing=False, extra_flags=(), log=None):
    """Build + verify. Modules whose expansion does not compile are dropped (recorded) and the
    build is retried, so one broken derive cannot hide the rest."""
    kr = KaniRun()
    t0 = time.time()
    mods = list(modules)
    res_json = os.path.join(d, 'res.json')
    for attempt in range(6):
        if os.path.exists(res_json):
            os.remove(res_json)
        cmd = ['cargo', 'kani', '--target-dir', target_dir, '-j', str(NCPU), '--output-format', 'terse',
               '-Z', 'unstable-options', '--export-json', res_json, '--harness-timeout', f'{harness_timeout}s']
        if need_stubbing:
            cmd += ['-Z', 'stubbing']
        cmd += list(extra_flags)
        rc, out = sh(cmd, cwd=d, timeout=harness_timeout * max(4, len(mods)) + 900)
        if log:
            with open(log, 'a') as f:
                f.write(f'==== attempt {attempt} rc={rc}\n{out}\n')
        if os.path.exists(res_json):
            break
        errs, unl = parse_rustc_errors(out)
        bad = [m for m in mods if m.name in errs]
        if not bad and re.search(r'interrupted by SIG|overflowed its stack|signal: \d+|proc-macro derive panicked|unexpectedly panicked', out):
            # the compiler itself died while expanding some module (a derive that recurses or aborts): find which by bisection with a
            # plain `cargo check` of the same crate, report those modules as compiler verdicts and go on without them
            crashed = _bisect_crashing_modules(d, mods, target_dir)
            if crashed:
                for m in crashed:
                    errs[m.name] = ['the compiler crashed while expanding this module (stack overflow / abort inside the derive): ' +
                                    '; '.join(l.strip() for l in out.splitlines() if re.search(r'interrupted by SIG|overflowed its stack|signal: \d+', l))[:300]]
                bad = crashed
        if not bad:
            kr.fatal = 'kani build failed without a module-located error:\n' + '\n'.join(out.splitlines()[-40:])
            kr.wall_s = time.time() - t0
            return kr, mods
        for m in bad:
            kr.compile_failed[m.name] = errs[m.name]
        mods = [m for m in mods if m.name not in errs]
        # rewrite lib.rs without the broken modules
        _rewrite_lib(d, mods)
        if not mods:
            kr.wall_s = time.time() - t0
            return kr, mods
    else:
        kr.fatal = 'kani build did not converge'
        kr.wall_s = time.time() - t0
        return kr, mods
    data = json.load(open(res_json))
    stats = {c['harness_id']: c.get('cbmc_stats', {}) for c in data.get('cbmc', [])}
    props = {c['harness_id']: c.get('property_details', {}) for c in data.get('property_details', [])}
    errd = {c['harness_id']: c for c in data.get('error_details', [])}
    for r in data['verification_results']['results']:
        hid = r['harness_id']
        failed = [c for c in r.get('checks', []) if c.get('status') not in ('Success', 'Satisfied', 'Unsatisfiable', 'Unreachable', 'Covered', 'Uncovered')]
        covers = {c['description']: c['status'] for c in r.get('checks', []) if c.get('category') == 'cover'}
        kr.harness[hid] = dict(status=r['status'], failed=[dict(desc=c.get('description'), cat=c.get('category'), status=c.get('status'), fn=c.get('function')) for c in failed],
                               covers=covers, stats=stats.get(hid, {}), props=props.get(hid, {}), err=errd.get(hid, {}),
                               duration_ms=r.get('duration_ms', 0))
    kr.wall_s = time.time() - t0
    os.remove(res_json)
    return kr, mods


def _bisect_crashing_modules(d, mods, target_dir):
    """-> the modules whose presence makes a plain `cargo check` of the harness crate crash the compiler (at most 4 are looked for)"""
    lib = open(os.path.join(d, 'src', 'lib.rs')).read()

    def crashes(subset):
        _rewrite_lib(d, subset)
        rc, out = sh(['cargo', 'check', '--quiet', '--lib', '--target-dir', target_dir + '-bisect'], cwd=d, env={'RUSTFLAGS': '-Awarnings'}, timeout=1800)
        return rc != 0 and bool(re.search(r'interrupted by SIG|overflowed its stack|signal: \d+|unexpectedly panicked', out))
    found = []
    try:
        pool = list(mods)
        while len(found) < 4 and pool and crashes(pool):
            lo = pool
            while len(lo) > 1:
                half = lo[:len(lo) // 2]
                lo = half if crashes(half) else lo[len(lo) // 2:]
            found.append(lo[0])
            pool = [m for m in pool if m is not lo[0]]
    finally:
        open(os.path.join(d, 'src', 'lib.rs'), 'w').write(lib)
    return found


def _rewrite_lib(d, mods):
    p = os.path.join(d, 'src', 'lib.rs')
    keep = {m.name for m in mods}
    out = []
    for line in open(p).read().splitlines():
        m = re.match(r'pub mod (\w+);', line)
        if m and m.group(1) != 'support' and m.group(1) not in keep:
            continue
        m = re.match(r'\s*"(\w+)::\w+" =>', line)
        if m and m.group(1) not in keep:
            continue
        out.append(line)
    open(p, 'w').write('\n'.join(out) + '\n')


VEC_RE = re.compile(r'vec!\[([0-9, ]*)\]')


def concrete_playback(d, target_dir, full_name, need_stubbing=False, timeout=600):
    cmd = ['cargo', 'kani', '--target-dir', target_dir, '--harness', full_name, '--exact', '--output-format', 'terse',
           '-Z', 'concrete-playback', '--concrete-playback=print']
    if need_stubbing:
        cmd += ['-Z', 'stubbing']
    rc, out = sh(cmd, cwd=d, timeout=timeout)
    tests = []
    cur = None
    is_cover = False
    for line in out.splitlines():
        if line.startswith('/// Check for'):
            is_cover = '`cover`' in line
        if 'let concrete_vals' in line:
            cur = []
            continue
        if cur is not None:
            m = VEC_RE.search(line)
            if m:
                cur.append([int(x) for x in m.group(1).replace(' ', '').split(',') if x != ''])
            elif 'concrete_playback_run' in line:
                tests.append((is_cover, cur))
                cur = None
    # Kani prints one test per failed check *and* per satisfied cover: the failed checks' inputs go first
    tests = [t for c, t in tests if not c] + [t for c, t in tests if c]
    return tests, out


def make_replay_crate(dst, module, crate_name='rp', features=None, lib_attrs=''):
    if os.path.exists(dst):
        shutil.rmtree(dst)
    write_crate(dst, [module], crate_name, features=features, lib_attrs=lib_attrs)


def native_replay(dst, full_name, vals, target_dir, profiles=('dev', 'release'), miri=False):
    """Run one harness natively with the given nondet byte vectors. -> {profile: 'panic'|'ok'|'assume'|'error'}"""
    spec = ';'.join(','.join(str(b) for b in v) for v in vals)
    res = {}
    outs = {}
    for prof in profiles:
        cmd = ['cargo', 'run', '--quiet', '--bin', 'replay', '--target-dir', target_dir]
        if prof == 'release':
            cmd.append('--release')
        cmd += ['--', full_name]
        rc, out = sh(cmd, cwd=dst, env={'VERIF_REPLAY_VALS': spec, 'RUSTFLAGS': '-Awarnings'}, timeout=900)
        outs[prof] = out[-3000:]
        if 'REPLAY-PANIC' in out:
            res[prof] = 'panic'
        elif 'REPLAY-ASSUME-FAILED' in out:
            res[prof] = 'assume'
        elif 'REPLAY-OK' in out:
            res[prof] = 'ok'
        else:
            res[prof] = 'error'
    if miri:
        cmd = ['cargo', '+nightly', 'miri', 'run', '--quiet', '--bin', 'replay', '--target-dir', target_dir + '-miri', '--', full_name]
        rc, out = sh(cmd, cwd=dst, env={'VERIF_REPLAY_VALS': spec, 'RUSTFLAGS': '-Awarnings', 'MIRIFLAGS': '-Zmiri-disable-isolation'}, timeout=1200)
        outs['miri'] = out[-4000:]
        if 'Undefined Behavior' in out:
            res['miri'] = 'ub'
        elif 'REPLAY-PANIC' in out:
            res['miri'] = 'panic'
        elif 'REPLAY-OK' in out:
            res['miri'] = 'ok'
        else:
            res['miri'] = 'error'
    return res, outs


def replay_path(path):
    """./check <ID> --replay <path>: re-run a stored counterexample against the current /repo. exit 1 = still violates"""
    path = os.path.abspath(path)
    if not os.path.isdir(path):
        print('no such replay directory: ' + path)
        return 2
    md = os.path.join(path, 'REPLAY.md')
    if os.path.exists(md):
        print(open(md).read()[:3000])
    if os.path.exists(os.path.join(path, 'run.sh')):
        rc, out = sh(['sh', os.path.join(path, 'run.sh')], cwd=path, timeout=1800)
        print(out[-3000:])
        if 'REPLAY-PANIC' in out or 'Undefined Behavior' in out:
            print('REPLAY: the violation reproduces')
            return 1
        if 'REPLAY-OK' in out:
            print('REPLAY: no longer reproduces')
            return 0
        return 2
    if os.path.exists(os.path.join(path, 'Cargo.toml')):
        rc, out = sh(['cargo', 'build', '--offline', '--target-dir', os.path.join(WORK, 'target-native')], cwd=path, timeout=1800)
        print(out[-3000:])
        if rc != 0:
            print('REPLAY: the crate still does not build (compiler verdict / proc-macro panic reproduces)')
            return 1
        rc, out = sh(['cargo', 'run', '--offline', '--quiet', '--target-dir', os.path.join(WORK, 'target-native')], cwd=path, timeout=1800)
        print(out[-3000:])
        print('REPLAY: builds; see the output above (E2 probes print one line per question)')
        return 0
    print('REPLAY: nothing executable here; follow REPLAY.md')
    return 2


def load_known(prop):
    p = os.path.join(VERIF, 'known_findings.json')
    if not os.path.exists(p):
        return []
    data = json.load(open(p))
    return [k for k in data.get('findings', []) if k.get('property') == prop and k.get('status') == 'open']


class Outcome:
    def __init__(self):
        self.violations = []   # dict(module, harness, what, replay)
        self.known = []        # dict(key, what)
        self.inconclusive = []  # strings
        self.discharged = 0
        self.obligations = 0
        self.nontrivial_cfgs = 0
        self.cbmc_props = 0
        self.solver_s = 0.0
        self.symex_s = 0.0
        self.replays = 0
        self.unreplayed = []


def evaluate(prop, tier, modules, kr, alive, d, target_dir, need_stubbing=False, features=None, lib_attrs='',
             replay_root=None, miri_on_pointer=True, native_target=None):
    """Turn Kani results into violations / known findings / inconclusives, replaying each failure."""
    oc = Outcome()
    known = load_known(prop)
    replay_root = replay_root or os.path.join(VERIF, 'replays', prop)
    native_target = native_target or os.path.join(WORK, 'target-native')
    bymod = {m.name: m for m in modules}

    def match_known(m, what):
        for k in known:
            if k['key'] in m.classes and (not k.get('match') or re.search(k['match'], what)):
                return k     # same role *and* the same failure (when the finding names one): anything else is still a violation
        return None

    # compile verdicts
    for name, msgs in kr.compile_failed.items():
        m = bymod[name]
        what = 'generated code does not compile (compiler verdict): ' + '; '.join(msgs[:3])
        k = match_known(m, what)
        oc.obligations += len(m.harnesses)
        if k:
            oc.known.append(dict(key=k['key'], what=k['what'], config=m.cfgid))
            continue
        dst = os.path.join(replay_root, name)
        make_replay_crate(dst, m, features=features, lib_attrs=lib_attrs)
        with open(os.path.join(dst, 'REPLAY.md'), 'w') as f:
            f.write(f'config: {m.cfgid}\n\n`cargo build` in this directory fails:\n\n' + '\n'.join(msgs) + '\n')
        oc.violations.append(dict(module=name, harness='*', what=what, replay=dst, config=m.cfgid))
    if kr.fatal:
        oc.inconclusive.append(kr.fatal)
        return oc
    alive_names = {m.name for m in alive}
    for m in modules:
        if m.name not in alive_names:
            continue
        all_ok = True
        for h in m.harnesses:
            full = f'{m.name}::{h.name}'
            oc.obligations += 1
            r = kr.harness.get(full)
            if r is None:
                oc.inconclusive.append(f'{full}: no result reported by kani')
                all_ok = False
                continue
            st = r['stats'] or {}
            oc.solver_s += float(st.get('runtime_solver_s', 0) or 0)
            oc.symex_s += float(st.get('runtime_symex_s', 0) or 0)
            oc.cbmc_props += int((r['props'] or {}).get('total_properties', 0) or 0)
            if r['status'] == 'Success':
                bad_cov = [c for c in h.covers if r['covers'].get(c) != 'Satisfied']
                if bad_cov:
                    oc.inconclusive.append(f'{full}: vacuity witness not satisfied: {bad_cov} ({ {c: r["covers"].get(c) for c in bad_cov} })')
                    all_ok = False
                else:
                    oc.discharged += 1
                continue
            all_ok = False
            failed = r['failed']
            descs = [f"{c['cat']}: {c['desc']}" for c in failed][:6]
            if not failed:
                # no verdict from the solver (timeout / out of memory).  Never a pass; before settling for "inconclusive", run the same
                # harness natively on a few fixed inputs: a failing assertion there is a reproduced violation (found by execution, said so)
                smoke = None
                if len(oc.violations) < MAX_REPLAYS:
                    dst = os.path.join(replay_root, f'{m.name}__{h.name}')
                    make_replay_crate(dst, m, features=features, lib_attrs=lib_attrs)
                    for vals in ([], [[1]] * 16, [[2]] * 16, [[255]] * 16):
                        res, outs = native_replay(dst, full, vals, native_target, profiles=('dev',), miri=False)
                        oc.replays += 1
                        if res.get('dev') == 'panic':
                            smoke = (vals, res, outs.get('dev', '')[-800:])
                            break
                    if smoke:
                        spec = ';'.join(','.join(str(b) for b in v) for v in smoke[0])
                        with open(os.path.join(dst, 'REPLAY.md'), 'w') as f:
                            f.write(f'property {prop}, config: {m.cfgid}\nharness: {full}\nthe solver gave no verdict ({r["err"]}); the harness run natively on fixed inputs fails:\n\n'
                                    f'replay: VERIF_REPLAY_VALS="{spec}" cargo run --bin replay -- {full}\n\n{smoke[2]}\n')
                        with open(os.path.join(dst, 'run.sh'), 'w') as f:
                            f.write(f'#!/bin/sh\ncd "$(dirname "$0")" && VERIF_REPLAY_VALS="{spec}" CARGO_NET_OFFLINE=true cargo run --bin replay -- {full}\n')
                        os.chmod(os.path.join(dst, 'run.sh'), 0o755)
                        oc.violations.append(dict(module=m.name, harness=h.name, what='harness assertion fails natively on fixed inputs (the solver itself timed out: found by execution, not by the solver)',
                                                  replay=dst, config=m.cfgid, how='native-smoke', vals=smoke[0]))
                        continue
                    shutil.rmtree(dst, ignore_errors=True)
                oc.inconclusive.append(f'{full}: kani status {r["status"]} without a failed check ({r["err"]})')
                continue
            if all(c['status'] in ('Undetermined',) for c in failed) or any('unwinding assertion' in (c['desc'] or '') for c in failed):
                oc.inconclusive.append(f'{full}: {descs}')
                continue
            what = '; '.join(descs)
            k = match_known(m, what)
            if k:
                oc.known.append(dict(key=k['key'], what=k['what'], config=m.cfgid))
                continue
            # replay before reporting (at most MAX_REPLAYS confirmed per run; the rest are listed)
            if len(oc.violations) >= MAX_REPLAYS:
                oc.unreplayed.append(f'{full}: {what} [{m.cfgid}]')
                continue
            tests, pout = concrete_playback(d, target_dir, full, need_stubbing)
            dst = os.path.join(replay_root, f'{m.name}__{h.name}')
            make_replay_crate(dst, m, features=features, lib_attrs=lib_attrs)
            only_ptr = all(c['cat'] not in ('assertion',) for c in failed)
            reproduced = None
            tried = []
            for vals in tests[:6]:
                oc.replays += 1
                res, outs = native_replay(dst, full, vals, native_target, miri=False)
                tried.append(dict(vals=vals, res=res))
                if res.get('dev') == 'panic' or res.get('release') == 'panic':
                    reproduced = dict(vals=vals, res=res, how='native')
                    break
            if reproduced is None and tests and (only_ptr or miri_on_pointer):
                res, outs = native_replay(dst, full, tests[0], native_target, profiles=(), miri=True)
                tried.append(dict(vals=tests[0], res=res))
                if res.get('miri') in ('ub', 'panic'):
                    reproduced = dict(vals=tests[0], res=res, how='miri', miri=outs.get('miri', '')[-1500:])
            with open(os.path.join(dst, 'REPLAY.md'), 'w') as f:
                f.write(f'property {prop}, config: {m.cfgid}\nharness: {full}\nkani failed checks: {what}\n\n'
                        f'replay: VERIF_REPLAY_VALS="<vals>" cargo run --bin replay -- {full}\n\n'
                        + json.dumps(dict(tried=tried, reproduced=reproduced), indent=1) + '\n')
            if reproduced:
                vals = reproduced['vals']
                with open(os.path.join(dst, 'run.sh'), 'w') as f:
                    spec = ';'.join(','.join(str(b) for b in v) for v in vals)
                    runner = 'cargo +nightly miri run' if reproduced['how'] == 'miri' else 'cargo run'
                    f.write(f'#!/bin/sh\ncd "$(dirname "$0")" && VERIF_REPLAY_VALS="{spec}" CARGO_NET_OFFLINE=true {runner} --bin replay -- {full}\n')
                os.chmod(os.path.join(dst, 'run.sh'), 0o755)
                oc.violations.append(dict(module=m.name, harness=h.name, what=what, replay=dst, config=m.cfgid,
                                          how=reproduced['how'], vals=vals))
            else:
                oc.inconclusive.append(f'{full}: kani counterexample did not reproduce natively ({what}); tried {tried}')
        if all_ok and m.harnesses:
            oc.nontrivial_cfgs += 1
    return oc


def write_evidence(prop, tier, seed, oc, modules, wall_s, rule, bounds, functions, assumptions, extra=None,
                   level='model_checking'):
    os.makedirs(os.path.join(VERIF, 'evidence'), exist_ok=True)
    samples = []
    for m in modules[:1] + modules[len(modules) // 2: len(modules) // 2 + 1] + modules[-1:]:
        samples.append(dict(config=m.cfgid, harnesses=[h.name for h in m.harnesses], **m.sample))
    cov = dict(
        evaluations=oc.obligations,
        distinct_nontrivial=oc.nontrivial_cfgs,
        rule=rule,
        samples=samples,
        obligations=oc.obligations,
        discharged=oc.discharged,
        configs=len(modules),
        cbmc_properties_checked=oc.cbmc_props,
        solver_time_s=round(oc.solver_s, 3),
        symex_time_s=round(oc.symex_s, 3),
        counterexamples_replayed=oc.replays,
        functions_encoded=functions,
        bounds=bounds,
        known_findings_matched=oc.known,
        inconclusive=oc.inconclusive[:20],
        violations=[dict(config=v['config'], what=v['what'], replay=v['replay']) for v in oc.violations[:20]],
        exhaustive=False,
        checker_cmd='cargo kani -j N --output-format terse -Z unstable-options --export-json (Kani 0.68.0, CBMC 6.11.0, CaDiCaL)',
    )
    if extra:
        cov.update(extra)
    ev = dict(property_id=prop, tier=tier, seed=seed, level=level, coverage=cov, assumptions=assumptions,
              wall_s=round(wall_s, 2), violations=len(oc.violations))
    with open(os.path.join(VERIF, 'evidence', prop + '.json'), 'w') as f:
        json.dump(ev, f, indent=1)
    return ev


def finish(prop, oc):
    """Print the verdict lines and return the exit code."""
    seen = set()
    for k in oc.known:
        if k['key'] in seen:
            continue
        seen.add(k['key'])
        print(f"KNOWN-FINDING: property={prop} {k['what']} [{k['key']}]")
    for v in oc.violations:
        print(f"VIOLATION property={prop} replay={v['replay']}")
        print(f"  config: {v['config']}\n  what: {v['what']}")
    for u in oc.unreplayed[:40]:
        print('  also failing (not replayed, cap reached): ' + u[:300])
    if oc.violations:
        return 1
    if oc.inconclusive:
        for s in oc.inconclusive[:30]:
            print('INCONCLUSIVE: ' + s[:600])
        return 2
    print(f'OK property={prop}: {oc.discharged}/{oc.obligations} solver obligations discharged, '
          f'{oc.nontrivial_cfgs} configs with all witnesses satisfied')
    return 0


def stubcheck(d):
    """Validate the CharSearcher::next_match model natively with Kani's own toolchain."""
    tc = open(os.path.expanduser('~/.kani/kani-0.68.0/rust-toolchain-version')).read().strip() if os.path.exists(os.path.expanduser('~/.kani/kani-0.68.0/rust-toolchain-version')) else 'nightly-2026-08-21'
    rc, out = sh(['cargo', 'run', '--quiet', '--bin', 'replay', '--target-dir', os.path.join(WORK, 'target-stubcheck'), '--', '--stubcheck'],
                 cwd=d, env={'RUSTUP_TOOLCHAIN': tc, 'RUSTFLAGS': '--cfg stubcheck -Awarnings'}, timeout=900)
    m = re.search(r'STUBCHECK-OK comparisons=(\d+)', out)
    if m:
        return int(m.group(1)), ''
    return 0, out[-2000:]


def empty_enum_module(modname, educe_list, bounds, functions, pre=''):
    """`enum Ty {}` under the given traits: there is no value, so the only obligations are that the expansion compiles
    (compiler verdict) and that the impls exist (a generic function bounded by them is instantiated)."""
    h = Harness('h_empty', covers=['reached'])
    body = pre + f'#[derive(Educe)]\n#[educe({educe_list})]\npub enum Ty {{}}\n' + f'fn need<T: {bounds}>() {{}}\n' + h.attrs() + '''pub fn h_empty() {
    need::<Ty>();
    let v: Option<Ty> = None;
    kani::cover!(true, "reached");
    assert!(v.is_none());
}
'''
    return Module(modname, f'empty enum / {educe_list}', body, [h], sample=dict(type_definition=f'#[educe({educe_list})] enum Ty {{}}'), functions=functions)


def run_e1(prop, tier, seed, modules, rule, bounds, assumptions, need_stubbing=False, features=None,
           lib_attrs='', harness_timeout=None, keep=False, extra=None, crate_tag='', validate_stub=False):
    """The whole E1 pipeline for one property. Returns exit code."""
    t0 = time.time()
    flt = os.environ.get('VERIF_FILTER')
    if flt:
        import re as _re
        modules = [m for m in modules if _re.search(flt, m.cfgid)]
    harness_timeout = harness_timeout or (300 if tier == 'quick' else 900)
    tag = f'{prop.lower()}{crate_tag}'
    gen_only = os.environ.get('VERIF_GEN_ONLY')
    if gen_only:
        # developer aid (tools/macro_coverage.sh): write the harness crate and stop; nothing is checked, no evidence is written
        gd = os.path.join(gen_only, tag)
        shutil.rmtree(gd, ignore_errors=True)
        os.makedirs(gd)
        write_crate(gd, modules, 'hc_' + re.sub(r'\W', '_', tag), features=features, lib_attrs=lib_attrs)
        print(f'generated {len(modules)} modules in {gd}')
        return 0
    d = os.path.join(WORK, f'{tag}_{tier}_{os.getpid()}')
    os.makedirs(WORK, exist_ok=True)
    for old in os.listdir(WORK):
        if old.startswith(f'{tag}_{tier}_') and os.path.isdir(os.path.join(WORK, old)):
            shutil.rmtree(os.path.join(WORK, old), ignore_errors=True)
    os.makedirs(d)
    target_dir = os.path.join(WORK, 'target-kani')
    crate = 'hc_' + re.sub(r'\W', '_', tag)
    log = os.path.join(WORK, f'{tag}_{tier}.log')
    if os.path.exists(log):
        os.remove(log)
    rr = os.path.join(VERIF, 'replays', prop)
    if os.path.exists(rr):
        shutil.rmtree(rr)
    write_crate(d, modules, crate, features=features, lib_attrs=lib_attrs)
    extra = dict(extra or {})
    if validate_stub:
        sd = d + '_stub'
        shutil.rmtree(sd, ignore_errors=True)
        write_crate(sd, [], crate, features=features, lib_attrs=lib_attrs)
        n, err = stubcheck(sd)
        shutil.rmtree(sd, ignore_errors=True)
        if not n:
            print('INCONCLUSIVE: the CharSearcher::next_match stub failed its native validation against the real function:\n' + err)
            return 2
        extra['stub_validation'] = dict(comparisons=n, method="native differential run under Kani's toolchain: model vs real <CharSearcher as Searcher>::next_match on every string of length <= 7 over {a, b, \\n}")
    kr, alive = run_kani(d, modules, target_dir, harness_timeout, need_stubbing, log=log)
    oc = evaluate(prop, tier, modules, kr, alive, d, target_dir, need_stubbing, features, lib_attrs)
    functions = sorted({f for m in modules for f in m.functions})
    ev = write_evidence(prop, tier, seed, oc, modules, time.time() - t0, rule, bounds, functions, assumptions, extra)
    rc = finish(prop, oc)
    if not keep and rc == 0:
        shutil.rmtree(d, ignore_errors=True)
    return rc
