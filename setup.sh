#!/bin/sh
# Offline setup: everything is built from files on disk. The checks themselves rebuild harness
# crates, the expander and scanners from /repo's working tree on every run; this pre-builds the
# dependency-only parts so that the first check does not pay for them.
set -e
cd "$(dirname "$0")"
export CARGO_NET_OFFLINE=true
command -v cargo >/dev/null
cargo kani --version >/dev/null
mkdir -p work evidence
( cd tools/cfgscan && cargo build --release --offline --target-dir ../../work/target-cfgscan >/dev/null 2>&1 ) || echo "warning: cfgscan pre-build failed (the checks will retry)"
( cd tools/expander && cargo build --release --offline --target-dir ../../work/target-expander >/dev/null 2>&1 ) || echo "warning: expander pre-build failed (the checks will retry)"
echo "setup ok"
