#!/bin/sh
# Offline setup: everything is built from files on disk. The checks themselves rebuild harness
# crates from /repo's working tree on every run; this only verifies the tool chain is present.
set -e
cd "$(dirname "$0")"
export CARGO_NET_OFFLINE=true
command -v cargo >/dev/null
cargo kani --version >/dev/null
mkdir -p work evidence
echo "setup ok"
