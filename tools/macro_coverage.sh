#!/bin/sh
# developer aid, not a check: which lines of /repo/src does the *macro* execute while expanding every request
# the quick tier generates?  Unreached non-error lines point at a thin spot in a request grammar.
# usage: tools/macro_coverage.sh [scratch-dir]      (scratch defaults to a fresh mktemp dir, removed afterwards)
# Method: VERIF_GEN_ONLY writes each E1 harness crate without running Kani; the E2 corpora are written as one crate;
# everything is `cargo +nightly check`ed with an instrumented educe (-C instrument-coverage); llvm-cov reports.
set -e
cd "$(dirname "$0")/.."
SCR="${1:-$(mktemp -d /tmp/educe_cov.XXXXXX)}"
mkdir -p "$SCR/gen" "$SCR/prof"
export CARGO_NET_OFFLINE=true
for c in C02 C03 C04 C05 C06 C07 C08 C09 C10 C14 C15 C19 C20; do
  VERIF_GEN_ONLY="$SCR/gen" ./check $c | tail -1
done
python3-vt - "$SCR" <<'EOF'
import sys, os
sys.path.insert(0, '/verif')
from vk import e2
d = sys.argv[1] + '/gen/e2'
os.makedirs(d + '/src', exist_ok=True)
open(d + '/Cargo.toml', 'w').write('[package]\nname = "e2c"\nversion = "0.0.0"\nedition = "2021"\n[dependencies]\neduce = { path = "%s" }\n[workspace]\n' % e2.REPO)
body = e2.PROBE_PRELUDE
n = 0
for tier in ('quick', 'thorough'):
    for corp in (e2.c11_corpus(tier, 0), e2.c12_corpus(tier, 0)):
        for r in corp:
            n += 1
            body += f'pub mod q{n} {{\nuse super::*;\n{r.source("Ty")}{e2.hand_impls(r, "Ty")}}}\n'
open(d + '/src/main.rs', 'w').write(body + 'fn main(){}\n')
print('E2 requests:', n)
EOF
cp /repo/Cargo.lock "$SCR/gen/e2/" 2>/dev/null || true
for d in "$SCR"/gen/*; do
  ( cd "$d" && LLVM_PROFILE_FILE="$SCR/prof/$(basename $d)-%p-%m.profraw" RUSTFLAGS="-C instrument-coverage -Awarnings" \
      cargo +nightly check --offline --target-dir "$SCR/target" >/dev/null 2>&1 || true )
done
BIN=$(dirname "$(find "$HOME/.rustup/toolchains" -path '*nightly-x86_64*' -name llvm-profdata | head -1)")
"$BIN/llvm-profdata" merge -sparse "$SCR"/prof/*.profraw -o "$SCR/all.profdata"
OBJ=$(ls "$SCR"/target/debug/deps/libeduce-*.so | sed 's/^/-object /' | tr '\n' ' ')
"$BIN/llvm-cov" report $OBJ -instr-profile="$SCR/all.profdata" --ignore-filename-regex='(registry|rustc)' | tail -90
"$BIN/llvm-cov" show $OBJ -instr-profile="$SCR/all.profdata" --ignore-filename-regex='(registry|rustc|panic.rs)' --show-line-counts > "$SCR/show.txt" 2>/dev/null
python3 - "$SCR/show.txt" <<'EOF'
import re, sys
cur = None
out = {}
for l in open(sys.argv[1]):
    if l.startswith('/') and l.rstrip().endswith(':'):
        cur = l.strip()[:-1]
        continue
    m = re.match(r'\s*(\d+)\|\s*(\d+)\|(.*)', l)
    if m and cur and int(m.group(2)) == 0:
        out.setdefault(cur, []).append((int(m.group(1)), m.group(3)))
noise = re.compile(r'panic::|^\s*[})\],;]*\s*$|Err\(|span\(\)|format!|path = |"expected|correct_usage|get_ident\(\)\.unwrap\(\)|^\s*variant,|^\s*rank,|_ => \(\)|\.span,')
print('\n== unreached lines that are not diagnostics (candidates for grammar extension) ==')
for f, ls in sorted(out.items()):
    keep = [(n, t) for n, t in ls if not noise.search(t)]
    if keep:
        print(f)
        for n, t in keep:
            print(f'  {n}: {t.strip()[:120]}')
EOF
[ -n "$1" ] || rm -rf "$SCR"
