//! Reads derive inputs (one JSON object per line: {"id": .., "src": ".."}) and prints, per input,
//! the impl items the real educe expansion produced: trait, self type, generic parameters and
//! every where-predicate, as JSON. Only structure is read, never anything that depends on how
//! tokens print.
use quote::ToTokens;
use std::io::{BufRead, Write};
use std::str::FromStr;

fn ts<T: ToTokens>(t: &T) -> String {
    t.to_token_stream().to_string()
}

fn main() {
    let stdin = std::io::stdin();
    let stdout = std::io::stdout();
    let mut out = stdout.lock();
    for line in stdin.lock().lines() {
        let line = line.unwrap();
        if line.trim().is_empty() {
            continue;
        }
        let req: serde_json::Value = serde_json::from_str(&line).unwrap();
        let id = req["id"].clone();
        let src = req["src"].as_str().unwrap();
        let res = std::panic::catch_unwind(|| {
            let input = proc_macro2::TokenStream::from_str(src).map_err(|e| format!("lex: {}", e))?;
            educe_inproc::verif_expand(input).map_err(|e| format!("educe: {}", e))
        });
        let v = match res {
            Err(_) => serde_json::json!({"id": id, "panic": true}),
            Ok(Err(e)) => serde_json::json!({"id": id, "error": e}),
            Ok(Ok(tokens)) => {
                let text = tokens.to_string();
                match syn::parse2::<syn::File>(tokens) {
                    Err(e) => serde_json::json!({"id": id, "error": format!("output does not parse: {}", e), "text": text}),
                    Ok(file) => {
                        let mut impls = vec![];
                        for item in file.items {
                            if let syn::Item::Impl(im) = item {
                                let mut params = vec![];
                                for p in im.generics.params.iter() {
                                    match p {
                                        syn::GenericParam::Lifetime(l) => params.push(serde_json::json!({"kind": "lifetime", "name": ts(&l.lifetime), "bounds": l.bounds.iter().map(|b| ts(b)).collect::<Vec<_>>()})),
                                        syn::GenericParam::Type(t) => params.push(serde_json::json!({"kind": "type", "name": t.ident.to_string(), "bounds": t.bounds.iter().map(|b| ts(b)).collect::<Vec<_>>(), "default": t.default.as_ref().map(|d| ts(d))})),
                                        syn::GenericParam::Const(c) => params.push(serde_json::json!({"kind": "const", "name": c.ident.to_string(), "ty": ts(&c.ty), "default": c.default.as_ref().map(|d| ts(d))})),
                                    }
                                }
                                let mut preds = vec![];
                                if let Some(w) = &im.generics.where_clause {
                                    for p in w.predicates.iter() {
                                        match p {
                                            syn::WherePredicate::Type(t) => preds.push(serde_json::json!({"kind": "type", "lhs": ts(&t.bounded_ty), "lifetimes": t.lifetimes.as_ref().map(|l| ts(l)), "bounds": t.bounds.iter().map(|b| ts(b)).collect::<Vec<_>>()})),
                                            syn::WherePredicate::Lifetime(l) => preds.push(serde_json::json!({"kind": "lifetime", "lhs": ts(&l.lifetime), "bounds": l.bounds.iter().map(|b| ts(b)).collect::<Vec<_>>()})),
                                            _ => preds.push(serde_json::json!({"kind": "other", "text": ts(p)})),
                                        }
                                    }
                                }
                                let (tr, neg) = match &im.trait_ {
                                    Some((bang, path, _)) => (Some(ts(path)), bang.is_some()),
                                    None => (None, false),
                                };
                                let fns: Vec<String> = im.items.iter().filter_map(|i| if let syn::ImplItem::Fn(f) = i { Some(f.sig.ident.to_string()) } else { None }).collect();
                                let tokens = im.to_token_stream().to_string();
                                impls.push(serde_json::json!({"tokens": tokens, "trait": tr, "negative": neg, "self_ty": ts(&*im.self_ty), "params": params, "where": preds, "fns": fns, "unsafe": im.unsafety.is_some()}));
                            }
                        }
                        serde_json::json!({"id": id, "impls": impls})
                    }
                }
            }
        };
        writeln!(out, "{}", v).unwrap();
    }
}
