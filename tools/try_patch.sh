#!/bin/sh
# usage: tools/try_patch.sh <patch.diff> <ID> [ID ...]   (env TIER=quick|thorough)
# applies the patch to /repo, runs the listed checks, and always restores /repo afterwards
cd "$(dirname "$0")/.."
P="$(realpath "$1")"; shift
[ -z "$(git -C /repo status --porcelain)" ] || { echo "/repo not clean"; exit 9; }
git -C /repo apply "$P" || { echo "patch does not apply"; exit 9; }
trap 'git -C /repo checkout -- . ; git -C /repo status --porcelain' EXIT INT TERM
for id in "$@"; do
  s=$(date +%s)
  ./check $id --tier ${TIER:-quick} > work/seed_$id.out 2>&1
  rc=$?
  e=$(date +%s)
  echo "$id rc=$rc $((e-s))s"
  grep -E "^VIOLATION|^INCONCLUSIVE|^  config|^  what" work/seed_$id.out | head -8 | cut -c1-220
done
