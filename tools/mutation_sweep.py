#!/usr/bin/env python3
"""developer aid, not a check: mechanical mutation sweep.

Applies simple source mutations (one at a time) to a scratch copy of /repo, keeps those that still build and
still pass educe's own test suite, and runs the quick checks (from a scratch copy of /verif, so evidence/
replays/work of the real /verif are untouched) against each survivor.  A survivor that no check flags is
either an equivalent mutant, a change outside every claimed property (diagnostic texts, rejections), or a
hole in a request grammar: those are listed for triage.

usage: tools/mutation_sweep.py <scratch-dir> <worker-id> <n-workers> <count> [seed]
Results: <scratch-dir>/results_<worker>.jsonl .  Remove the scratch dir afterwards.
"""
import json
import os
import random
import re
import shutil
import subprocess
import sys
import time

SCR, WID, NW, COUNT = sys.argv[1], int(sys.argv[2]), int(sys.argv[3]), int(sys.argv[4])
SEED = int(sys.argv[5]) if len(sys.argv) > 5 else 1
REPO = os.path.join(SCR, f'repo{WID}')
VER = os.path.join(SCR, f'verif{WID}')
ENV = dict(os.environ, CARGO_NET_OFFLINE='true', VERIF_REPO=REPO, VERIF_MAX_REPLAYS='1')

OPS = [
    (r'==', '!='), (r'!=', '=='), (r'&&', '||'), (r'\|\|', '&&'), (r'\btrue\b', 'false'), (r'\bfalse\b', 'true'),
    (r'\.is_some\(\)', '.is_none()'), (r'\.is_none\(\)', '.is_some()'), (r'\.is_empty\(\)', '.len() == 1'),
    (r'\+ 1\b', '+ 0'), (r'\+= 1\b', '+= 2'), (r'\b0usize\b', '1usize'), (r'index as isize', '(index as isize + 1)'),
    (r'\bcontinue;', ''), (r'\bbreak;', ''), (r'#field_name_var_self\b', '#field_name_var_other'), (r'#field_name_var_other\b', '#field_name_var_self'),
    (r'\(self, other\)', '(other, self)'), (r'!contains_copy', 'contains_copy'), (r'if !', 'if '), (r'\bfirst\b', 'last'),
    (r'isize::MIN', 'isize::MAX'), (r'\.iter\(\)\.enumerate\(\)', '.iter().rev().enumerate()'), (r'\.values\(\)', '.values().rev()'),
    (r'Ordering::Equal', 'Ordering::Less'), (r'Ordering::Less', 'Ordering::Greater'), (r'Option::Some\(', 'Option::None.or(::core::option::Option::Some('),
    (r'size_of::<Self>\(\)', 'size_of::<Self>() / 2'), (r'return expr;', ''), (r'\.skip\(1\)', '.skip(0)'),
]
DELETE_STMT = re.compile(r'^\s*[a-z_][a-z_0-9.]*\s*(=|\+=)\s*[^;]*;\s*$')    # simple assignments: `all_unit = false;`

MAP = {
    'debug': ['C06', 'C15', 'C14', 'C20', 'C19', 'C11', 'C12'], 'clone': ['C07', 'C15', 'C14', 'C20', 'C19', 'C11', 'C12'], 'copy': ['C07', 'C11', 'C12', 'C15'],
    'partial_eq': ['C02', 'C15', 'C14', 'C20', 'C19', 'C11', 'C12'], 'eq': ['C02', 'C11', 'C12', 'C15'], 'partial_ord': ['C03', 'C04', 'C15', 'C14', 'C19', 'C11', 'C12'],
    'ord': ['C03', 'C04', 'C15', 'C14', 'C19', 'C11', 'C12'], 'hash': ['C05', 'C15', 'C14', 'C20', 'C19', 'C11', 'C12'], 'default': ['C08', 'C15', 'C14', 'C20', 'C19', 'C11', 'C12'],
    'deref': ['C09', 'C15', 'C19', 'C11'], 'deref_mut': ['C09', 'C15', 'C19', 'C11'], 'into': ['C10', 'C14', 'C15', 'C19', 'C11', 'C12'],
}
ALL = ['C02', 'C03', 'C04', 'C05', 'C07', 'C08', 'C09', 'C10', 'C11', 'C12', 'C17', 'C18', 'C15', 'C14', 'C20', 'C19', 'C06']


def sh(cmd, cwd, timeout):
    try:
        p = subprocess.run(cmd, cwd=cwd, env=ENV, stdout=subprocess.PIPE, stderr=subprocess.STDOUT, text=True, timeout=timeout)
        return p.returncode, p.stdout
    except subprocess.TimeoutExpired as e:
        return 124, (e.stdout or '') if isinstance(e.stdout, str) else ''


def setup():
    if not os.path.isdir(REPO):
        shutil.copytree('/repo', REPO, ignore=shutil.ignore_patterns('target', '.git'))
    if not os.path.isdir(VER):
        shutil.copytree('/verif', VER, ignore=shutil.ignore_patterns('work', 'replays', '.git', 'seeded', 'target', '__pycache__'))
        os.makedirs(os.path.join(VER, 'work'))
        sh(['sh', 'setup.sh'], VER, 1800)


def candidates():
    out = []
    src = os.path.join('/repo', 'src')
    for root, _, files in os.walk(src):
        for fn in files:
            if not fn.endswith('.rs') or fn == 'panic.rs':
                continue
            p = os.path.join(root, fn)
            rel = os.path.relpath(p, '/repo')
            lines = open(p).read().split('\n')
            in_doc = False
            for i, l in enumerate(lines):
                st = l.strip()
                if st.startswith('//') or st.startswith('#[') or st.startswith('use ') or 'correct_usage' in l or 'format!' in l or st.startswith('"') or 'enable_' in l or 'debug_assert' in l:
                    continue
                if rel == 'src/lib.rs' and i < 1890:
                    continue    # crate documentation
                for oi, (pat, rep) in enumerate(OPS):
                    for m in re.finditer(pat, l):
                        out.append((rel, i, m.start(), m.end(), rep, f'op{oi}:{pat}->{rep}'))
                if DELETE_STMT.match(l) and 'let ' not in l:
                    out.append((rel, i, 0, len(l), '', 'delete-assignment'))
    return out


def checks_for(rel):
    parts = rel.split('/')
    if len(parts) > 2 and parts[1] == 'trait_handlers':
        return MAP.get(parts[2], ALL)
    return ALL


def main():
    setup()
    cands = candidates()
    rng = random.Random(SEED)
    rng.shuffle(cands)
    # handlers first: they carry the generated code
    cands.sort(key=lambda c: 0 if re.search(r'_(struct|enum|union)\.rs$|/mod\.rs$|common/(expr|type|tools)', c[0]) else 1)
    mine = [c for k, c in enumerate(cands[:COUNT * NW]) if k % NW == WID]
    res = open(os.path.join(SCR, f'results_{WID}.jsonl'), 'a')
    for (rel, li, a, b, rep, opname) in mine:
        p = os.path.join(REPO, rel)
        orig = open(os.path.join('/repo', rel)).read()
        lines = orig.split('\n')
        old_line = lines[li]
        lines[li] = old_line[:a] + rep + old_line[b:]
        rec = dict(file=rel, line=li + 1, op=opname, before=old_line.strip(), after=lines[li].strip())
        t0 = time.time()
        try:
            open(p, 'w').write('\n'.join(lines))
            rc, out = sh(['cargo', 'build', '--offline'], REPO, 600)
            if rc != 0 or 'warning: unused' in out or 'warning: unreachable' in out:
                rec['status'] = 'stillborn' if rc != 0 else 'warns'
                continue
            rc, out = sh(['cargo', 'test', '--workspace', '--no-fail-fast', '--offline'], REPO, 1800)
            if rc != 0:
                rec['status'] = 'killed-by-suite'
                continue
            rec['status'] = 'survived-suite'
            rec['checks'] = {}
            for cid in checks_for(rel):
                rc, out = sh(['./check', cid], VER, 3600)
                rec['checks'][cid] = rc
                if rc == 1 and 'VIOLATION' in out:
                    rec['status'] = 'caught'
                    rec['caught_by'] = cid
                    rec['what'] = [l.strip()[:200] for l in out.splitlines() if l.strip().startswith(('what:', 'config:'))][:2]
                    break
            if rec['status'] != 'caught':
                rec['status'] = 'NOT-CAUGHT' if all(v == 0 for v in rec['checks'].values()) else 'inconclusive'
        finally:
            open(p, 'w').write(orig)
            rec['secs'] = round(time.time() - t0)
            res.write(json.dumps(rec) + '\n')
            res.flush()
            print(rec['status'], rel, li + 1, opname, flush=True)


if __name__ == '__main__':
    main()
