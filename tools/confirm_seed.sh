#!/bin/sh
# usage: tools/confirm_seed.sh <worktree> <seed-name>
# confirms in the scratch worktree that (1) the suite passes with the change, (2) the demo fails with
# it and passes without it; then stores patch.diff + demo under /verif/seeded/<seed-name>/
WT="$1"; NAME="$2"
OUT=/verif/seeded/$NAME
export CARGO_NET_OFFLINE=true
mkdir -p "$OUT"
git -C "$WT" diff > "$OUT/patch.diff"
[ -s "$OUT/patch.diff" ] || { echo "$NAME: empty diff"; exit 1; }
( cd "$WT" && cargo test --workspace --no-fail-fast --offline > "$OUT/suite_with_change.log" 2>&1 ); SUITE=$?
PASS=$(grep -E "^test result" "$OUT/suite_with_change.log" | awk '{p+=$4; f+=$6} END {print p" passed "f" failed"}')
rm -rf "$OUT/demo"; mkdir -p "$OUT/demo"; cp -r "$WT/demo/Cargo.toml" "$WT/demo/src" "$OUT/demo/" 2>/dev/null
( cd "$WT/demo" && cargo run --offline > "$OUT/demo_with_change.log" 2>&1 ); WITH=$?
git -C "$WT" apply -R "$OUT/patch.diff"
( cd "$WT/demo" && cargo run --offline > "$OUT/demo_without_change.log" 2>&1 ); WITHOUT=$?
git -C "$WT" apply "$OUT/patch.diff"
echo "$NAME: suite rc=$SUITE ($PASS) demo_with_change rc=$WITH demo_without rc=$WITHOUT files: $(git -C "$WT" diff --stat | tail -1)"
tail -c 600 "$OUT/suite_with_change.log" > "$OUT/suite_tail.txt"; rm -f "$OUT/suite_with_change.log"
