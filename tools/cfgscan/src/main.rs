//! cfgscan <crate-src-dir>: parses every module reachable from lib.rs and prints, as JSON, the facts
//! the C18 encoder needs: module tree with cfgs, item definitions with cfgs, `use` leaves, every path
//! with the cfg stack in force where it occurs, cfg'd `let`s, enum variants, match arms with literal
//! patterns, item-position macros (compile_error!) — all with source lines.
use quote::ToTokens;
use serde_json::{json, Value};
use std::path::{Path, PathBuf};
use syn::visit::{self, Visit};
use syn::visit_mut::{self, VisitMut};
use syn::*;

// ---- residual of a cfg(feature = X)-gated statement in a build where X is compiled out --------------------
// `traits.contains(&Trait::X)` can only be false when the variant Trait::X does not exist; the residual is the
// statement with that call replaced by `false` and the obvious Boolean / `if` simplifications applied.
struct Subst<'a> {
    feature: &'a str,
    hits: usize,
}

fn lit_bool(e: &Expr) -> Option<bool> {
    match e {
        Expr::Lit(ExprLit { lit: Lit::Bool(b), .. }) => Some(b.value),
        Expr::Paren(p) => lit_bool(&p.expr),
        _ => None,
    }
}

fn mk_bool(b: bool) -> Expr {
    if b { parse_quote!(true) } else { parse_quote!(false) }
}

impl<'a> VisitMut for Subst<'a> {
    fn visit_expr_mut(&mut self, e: &mut Expr) {
        visit_mut::visit_expr_mut(self, e);
        let mut new: Option<Expr> = None;
        match e {
            Expr::MethodCall(m) if m.method == "contains" && m.args.len() == 1 => {
                let recv = m.receiver.to_token_stream().to_string();
                let arg = m.args[0].to_token_stream().to_string().replace(' ', "");
                if recv == "traits" && arg == format!("&Trait::{}", self.feature) {
                    self.hits += 1;
                    new = Some(mk_bool(false));
                }
            }
            // a map keyed by Trait has no entry for a variant that does not exist; no Trait value equals it
            Expr::MethodCall(m) if m.method == "get" && m.args.len() == 1 && m.args[0].to_token_stream().to_string().replace(' ', "") == format!("&Trait::{}", self.feature) => {
                self.hits += 1;
                new = Some(parse_quote!(None));
            }
            Expr::Binary(b) if matches!(b.op, BinOp::Eq(_)) && (b.left.to_token_stream().to_string().replace(' ', "") == format!("Trait::{}", self.feature)
                || b.right.to_token_stream().to_string().replace(' ', "") == format!("Trait::{}", self.feature)) => {
                self.hits += 1;
                new = Some(mk_bool(false));
            }
            Expr::Let(l) if l.expr.to_token_stream().to_string() == "None" && l.pat.to_token_stream().to_string().starts_with("Some") => {
                new = Some(mk_bool(false));
            }
            Expr::Unary(u) if matches!(u.op, UnOp::Not(_)) => {
                if let Some(b) = lit_bool(&u.expr) {
                    new = Some(mk_bool(!b));
                }
            }
            Expr::Binary(b) => {
                let (l, r) = (lit_bool(&b.left), lit_bool(&b.right));
                match b.op {
                    BinOp::And(_) => {
                        if l == Some(false) || r == Some(false) {
                            new = Some(mk_bool(false));
                        } else if l == Some(true) {
                            new = Some((*b.right).clone());
                        } else if r == Some(true) {
                            new = Some((*b.left).clone());
                        }
                    }
                    BinOp::Or(_) => {
                        if l == Some(true) || r == Some(true) {
                            new = Some(mk_bool(true));
                        } else if l == Some(false) {
                            new = Some((*b.right).clone());
                        } else if r == Some(false) {
                            new = Some((*b.left).clone());
                        }
                    }
                    _ => {}
                }
            }
            _ => {}
        }
        if let Some(n) = new {
            *e = n;
        }
    }
}

fn strip_cfg(attrs: &mut Vec<Attribute>) {
    attrs.retain(|a| !a.path().is_ident("cfg"));
}

fn stmt_attrs_mut(st: &mut Stmt) -> Option<&mut Vec<Attribute>> {
    match st {
        Stmt::Local(l) => Some(&mut l.attrs),
        Stmt::Macro(m) => Some(&mut m.attrs),
        Stmt::Expr(e, _) => expr_attrs_mut(e),
        Stmt::Item(_) => None,
    }
}

fn expr_attrs_mut(e: &mut Expr) -> Option<&mut Vec<Attribute>> {
    macro_rules! m { ($($v:ident),*) => { match e { $(Expr::$v(x) => Some(&mut x.attrs),)* _ => None } } }
    m!(Array, Assign, Async, Await, Binary, Block, Break, Call, Cast, Closure, Const, Continue, Field, ForLoop, Group, If, Index, Infer, Let, Lit, Loop, Macro, Match, MethodCall, Paren, Path, Range, Reference, Repeat, Return, Struct, Try, TryBlock, Tuple, Unary, Unsafe, While, Yield)
}

fn stmt_attrs(st: &Stmt) -> &[Attribute] {
    match st {
        Stmt::Local(l) => &l.attrs,
        Stmt::Macro(m) => &m.attrs,
        Stmt::Expr(e, _) => expr_attrs(e),
        Stmt::Item(i) => item_attrs(i),
    }
}

fn norm(st: &Stmt) -> String {
    let mut s = st.to_token_stream().to_string();
    while s.ends_with(';') || s.ends_with(' ') {
        s.pop();
    }
    s
}

/// the statements left of `st` (cfg attributes removed) when `Trait::<feature>` cannot be among the requested traits
fn residual(st: &Stmt, feature: &str) -> (Vec<String>, usize) {
    let mut st = st.clone();
    if let Some(a) = stmt_attrs_mut(&mut st) {
        strip_cfg(a);
    }
    let mut sub = Subst { feature, hits: 0 };
    sub.visit_stmt_mut(&mut st);
    (simplify_stmt(&st), sub.hits)
}

fn simplify_stmt(st: &Stmt) -> Vec<String> {
    let sub = Hits { hits: 0 };
    if let Stmt::Expr(Expr::Block(b), _) = st {
        if b.label.is_none() && b.attrs.is_empty() {
            let inner: Vec<String> = b.block.stmts.iter().flat_map(simplify_stmt).collect();
            if inner.is_empty() {
                return vec![];
            }
        }
    }
    let r = (|| {
    if let Stmt::Expr(Expr::If(i), _) = st {
        if let Some(b) = lit_bool(&i.cond) {
            if !b {
                return match &i.else_branch {
                    None => (vec![], sub.hits),
                    Some((_, e)) => (vec![e.to_token_stream().to_string()], sub.hits),
                };
            }
            return (i.then_branch.stmts.iter().map(norm).collect(), sub.hits);
        }
    }
    (vec![norm(st)], sub.hits)
    })();
    r.0
}

struct Hits {
    hits: usize,
}

struct Impure(bool);
impl<'ast> Visit<'ast> for Impure {
    fn visit_expr_try(&mut self, _: &'ast ExprTry) { self.0 = true; }
    fn visit_expr_return(&mut self, _: &'ast ExprReturn) { self.0 = true; }
    fn visit_expr_macro(&mut self, _: &'ast ExprMacro) { self.0 = true; }
    fn visit_expr_break(&mut self, _: &'ast ExprBreak) { self.0 = true; }
    fn visit_expr_continue(&mut self, _: &'ast ExprContinue) { self.0 = true; }
    fn visit_expr_call(&mut self, _: &'ast ExprCall) { self.0 = true; }
    fn visit_expr_assign(&mut self, _: &'ast ExprAssign) { self.0 = true; }
    fn visit_expr_method_call(&mut self, m: &'ast ExprMethodCall) {
        let n = m.method.to_string();
        if !matches!(n.as_str(), "is_some" | "is_none" | "is_empty" | "contains" | "len") {
            self.0 = true;
        }
        visit::visit_expr_method_call(self, m);
    }
}

fn pure(e: &Expr) -> bool {
    let mut p = Impure(false);
    p.visit_expr(e);
    !p.0
}

/// Some(names) when the statement does nothing but define / assign the named locals from side-effect-free expressions
fn local_only(st: &Stmt) -> Option<Vec<String>> {
    match st {
        Stmt::Local(l) => {
            if let Some(init) = &l.init {
                if init.diverge.is_some() || !pure(&init.expr) {
                    return None;
                }
            }
            let mut names = vec![];
            collect_pat_idents(&l.pat, &mut names);
            Some(names)
        }
        Stmt::Expr(Expr::Assign(a), _) => match &*a.left {
            Expr::Path(p) if p.path.segments.len() == 1 && p.qself.is_none() && pure(&a.right) => Some(vec![p.path.segments[0].ident.to_string()]),
            _ => None,
        },
        Stmt::Expr(Expr::If(i), _) if i.else_branch.is_none() && pure(&i.cond) => {
            let mut names = vec![];
            for s in i.then_branch.stmts.iter() {
                names.extend(local_only(s)?);
            }
            Some(names)
        }
        _ => None,
    }
}

fn cfg_of_meta(m: &Meta) -> Value {
    match m {
        Meta::NameValue(nv) => {
            let k = nv.path.to_token_stream().to_string();
            let v = nv.value.to_token_stream().to_string();
            if k == "feature" {
                json!({"feature": v.trim_matches('"')})
            } else {
                json!({"other": format!("{} = {}", k, v)})
            }
        }
        Meta::List(l) => {
            let k = l.path.to_token_stream().to_string();
            let inner: Vec<Value> = l
                .parse_args_with(punctuated::Punctuated::<Meta, Token![,]>::parse_terminated)
                .map(|p| p.iter().map(cfg_of_meta).collect())
                .unwrap_or_default();
            match k.as_str() {
                "any" => json!({"any": inner}),
                "all" => json!({"all": inner}),
                "not" => json!({"not": inner.into_iter().next().unwrap_or(json!({"other": "?"}))}),
                _ => json!({"other": l.to_token_stream().to_string()}),
            }
        }
        Meta::Path(p) => json!({"other": p.to_token_stream().to_string()}),
    }
}

fn cfgs(attrs: &[Attribute]) -> Vec<Value> {
    let mut out = vec![];
    for a in attrs {
        if a.path().is_ident("cfg") {
            if let Meta::List(l) = &a.meta {
                if let Ok(m) = l.parse_args::<Meta>() {
                    out.push(cfg_of_meta(&m));
                }
            }
        }
    }
    out
}

fn allows_dead(attrs: &[Attribute]) -> bool {
    attrs.iter().any(|a| {
        (a.path().is_ident("allow") || a.path().is_ident("expect"))
            && a.meta.to_token_stream().to_string().contains("dead_code")
            || (a.path().is_ident("allow") && a.meta.to_token_stream().to_string().contains("unused"))
    })
}

fn allows_unused(attrs: &[Attribute]) -> bool {
    attrs.iter().any(|a| (a.path().is_ident("allow") || a.path().is_ident("expect")) && a.meta.to_token_stream().to_string().contains("unused"))
}

fn line<T: spanned::Spanned>(t: &T) -> usize {
    t.span().start().line
}

struct Scan {
    stack: Vec<Value>,
    fn_stack: Vec<String>,
    fn_cfg_stack: Vec<Value>,
    mutations: Vec<Value>,
    items: Vec<Value>,
    uses: Vec<Value>,
    paths: Vec<Value>,
    lets: Vec<Value>,
    variants: Vec<Value>,
    arms: Vec<Value>,
    macro_idents: Vec<Value>,
    item_macros: Vec<Value>,
    bindings: Vec<Value>,
    mods: Vec<(String, Vec<Value>, bool, usize, bool)>,
    assoc_fns: Vec<Value>,
    method_calls: Vec<Value>,
    dead_stack: Vec<bool>,
    unused_stack: Vec<bool>,
    gated_stmts: Vec<Value>,
}

impl Scan {
    fn cur(&self) -> Value {
        Value::Array(self.stack.clone())
    }
    fn with<F: FnOnce(&mut Self)>(&mut self, attrs: &[Attribute], f: F) {
        let c = cfgs(attrs);
        let n = c.len();
        self.stack.extend(c);
        f(self);
        for _ in 0..n {
            self.stack.pop();
        }
    }
    fn flatten_use(&mut self, prefix: &mut Vec<String>, t: &UseTree, ln: usize) {
        match t {
            UseTree::Path(p) => {
                prefix.push(p.ident.to_string());
                self.flatten_use(prefix, &p.tree, ln);
                prefix.pop();
            }
            UseTree::Name(n) => {
                let mut full = prefix.clone();
                full.push(n.ident.to_string());
                self.uses.push(json!({"cfg": self.cur(), "path": full, "name": n.ident.to_string(), "line": ln}));
            }
            UseTree::Rename(r) => {
                let mut full = prefix.clone();
                full.push(r.ident.to_string());
                self.uses.push(json!({"cfg": self.cur(), "path": full, "name": r.rename.to_string(), "line": ln}));
            }
            UseTree::Glob(_) => {
                self.uses.push(json!({"cfg": self.cur(), "path": prefix.clone(), "name": "*", "line": ln}));
            }
            UseTree::Group(g) => {
                for i in g.items.iter() {
                    self.flatten_use(prefix, i, ln);
                }
            }
        }
    }
    fn macro_tokens(&mut self, ts: proc_macro2::TokenStream, ln: usize) {
        for tt in ts {
            match tt {
                proc_macro2::TokenTree::Ident(i) => {
                    self.macro_idents.push(json!({"cfg": self.cur(), "name": i.to_string(), "line": ln, "fn": self.fn_stack.last()}));
                }
                proc_macro2::TokenTree::Group(g) => self.macro_tokens(g.stream(), ln),
                _ => {}
            }
        }
    }
}

fn item_attrs(i: &Item) -> &[Attribute] {
    match i {
        Item::Const(x) => &x.attrs,
        Item::Enum(x) => &x.attrs,
        Item::ExternCrate(x) => &x.attrs,
        Item::Fn(x) => &x.attrs,
        Item::ForeignMod(x) => &x.attrs,
        Item::Impl(x) => &x.attrs,
        Item::Macro(x) => &x.attrs,
        Item::Mod(x) => &x.attrs,
        Item::Static(x) => &x.attrs,
        Item::Struct(x) => &x.attrs,
        Item::Trait(x) => &x.attrs,
        Item::TraitAlias(x) => &x.attrs,
        Item::Type(x) => &x.attrs,
        Item::Union(x) => &x.attrs,
        Item::Use(x) => &x.attrs,
        _ => &[],
    }
}

fn expr_attrs(e: &Expr) -> &[Attribute] {
    macro_rules! m { ($($v:ident),*) => { match e { $(Expr::$v(x) => &x.attrs,)* _ => &[] } } }
    m!(Array, Assign, Async, Await, Binary, Block, Break, Call, Cast, Closure, Const, Continue, Field, ForLoop, Group, If, Index, Infer, Let, Lit, Loop, Macro, Match, MethodCall, Paren, Path, Range, Reference, Repeat, Return, Struct, Try, TryBlock, Tuple, Unary, Unsafe, While, Yield)
}

impl<'ast> Visit<'ast> for Scan {
    fn visit_attribute(&mut self, _a: &'ast Attribute) {}

    fn visit_item(&mut self, i: &'ast Item) {
        let attrs = item_attrs(i);
        let here = cfgs(attrs);
        let mut full = self.stack.clone();
        full.extend(here.clone());
        let (kind, name) = match i {
            Item::Const(x) => ("const", x.ident.to_string()),
            Item::Enum(x) => ("enum", x.ident.to_string()),
            Item::Fn(x) => ("fn", x.sig.ident.to_string()),
            Item::Mod(x) => ("mod", x.ident.to_string()),
            Item::Static(x) => ("static", x.ident.to_string()),
            Item::Struct(x) => ("struct", x.ident.to_string()),
            Item::Trait(x) => ("trait", x.ident.to_string()),
            Item::Type(x) => ("type", x.ident.to_string()),
            Item::Union(x) => ("union", x.ident.to_string()),
            Item::Macro(x) => ("macro", x.ident.as_ref().map(|i| i.to_string()).unwrap_or_default()),
            Item::Use(_) => ("use", String::new()),
            Item::Impl(_) => ("impl", String::new()),
            _ => ("other", String::new()),
        };
        if !matches!(i, Item::Use(_) | Item::Impl(_)) {
            self.items.push(json!({"kind": kind, "name": name, "cfg": full, "line": line(i), "fn": self.fn_stack.last(), "allow_dead": allows_dead(attrs) || self.dead_stack.iter().any(|x| *x)}));
        }
        self.unused_stack.push(allows_unused(attrs));
        self.with(attrs, |s| match i {
            Item::Use(u) => {
                let mut p = vec![];
                if u.leading_colon.is_some() {
                    p.push("::".to_string());
                }
                s.flatten_use(&mut p, &u.tree, line(u));
            }
            Item::Mod(m) => {
                if m.content.is_none() {
                    s.mods.push((m.ident.to_string(), s.stack.clone(), false, line(m), allows_dead(&m.attrs)));
                } else {
                    // inline modules are rare in this crate; record and descend (names are not re-scoped)
                    s.mods.push((m.ident.to_string(), s.stack.clone(), true, line(m), allows_dead(&m.attrs)));
                    visit::visit_item(s, i);
                }
            }
            Item::Macro(m) => {
                s.item_macros.push(json!({"cfg": s.cur(), "path": m.mac.path.to_token_stream().to_string(), "tokens": m.mac.tokens.to_string(), "line": line(m)}));
                s.paths.push(json!({"cfg": s.cur(), "segments": m.mac.path.segments.iter().map(|x| x.ident.to_string()).collect::<Vec<_>>(), "line": line(m), "fn": s.fn_stack.last(), "macro": true}));
                s.macro_tokens(m.mac.tokens.clone(), line(m));
            }
            Item::Enum(e) => {
                for v in e.variants.iter() {
                    let mut c = s.stack.clone();
                    c.extend(cfgs(&v.attrs));
                    s.variants.push(json!({"enum": e.ident.to_string(), "variant": v.ident.to_string(), "cfg": c, "line": line(v)}));
                }
                visit::visit_item(s, i);
            }
            Item::Impl(im) => {
                let dead = allows_dead(&im.attrs) || s.dead_stack.iter().any(|x| *x);
                for it in im.items.iter() {
                    if let ImplItem::Fn(f) = it {
                        let mut c = s.stack.clone();
                        c.extend(cfgs(&f.attrs));
                        s.assoc_fns.push(json!({"name": f.sig.ident.to_string(), "self_ty": im.self_ty.to_token_stream().to_string(), "trait": im.trait_.is_some(),
                            "cfg": c, "allow_dead": dead || allows_dead(&f.attrs), "line": line(f)}));
                    }
                }
                visit::visit_item(s, i);
            }
            Item::Fn(f) => {
                s.fn_stack.push(f.sig.ident.to_string());
                let c = s.cur();
                s.fn_cfg_stack.push(c);
                visit::visit_item(s, i);
                s.fn_cfg_stack.pop();
                s.fn_stack.pop();
            }
            _ => visit::visit_item(s, i),
        });
        self.unused_stack.pop();
    }

    fn visit_impl_item_fn(&mut self, f: &'ast ImplItemFn) {
        let attrs = f.attrs.clone();
        self.unused_stack.push(allows_unused(&attrs));
        self.with(&attrs, |s| {
            s.fn_stack.push(f.sig.ident.to_string());
            let c = s.cur();
            s.fn_cfg_stack.push(c);
            visit::visit_impl_item_fn(s, f);
            s.fn_cfg_stack.pop();
            s.fn_stack.pop();
        });
        self.unused_stack.pop();
    }

    fn visit_variant(&mut self, v: &'ast Variant) {
        let attrs = v.attrs.clone();
        self.with(&attrs, |s| visit::visit_variant(s, v));
    }

    fn visit_field(&mut self, f: &'ast Field) {
        let attrs = f.attrs.clone();
        self.with(&attrs, |s| visit::visit_field(s, f));
    }

    fn visit_fn_arg(&mut self, a: &'ast FnArg) {
        if let FnArg::Typed(t) = a {
            let attrs = t.attrs.clone();
            self.unused_stack.push(allows_unused(&attrs));
            self.with(&attrs, |s| visit::visit_fn_arg(s, a));
            self.unused_stack.pop();
        } else {
            visit::visit_fn_arg(self, a);
        }
    }

    fn visit_local(&mut self, l: &'ast Local) {
        let attrs = l.attrs.clone();
        self.unused_stack.push(allows_unused(&attrs));
        self.with(&attrs, |s| {
            let mut names = vec![];
            collect_pat_idents(&l.pat, &mut names);
            for n in names {
                s.lets.push(json!({"cfg": s.cur(), "name": n, "line": line(l), "pat_line": line(&l.pat), "fn": s.fn_stack.last()}));
            }
            visit::visit_local(s, l);
        });
        self.unused_stack.pop();
    }

    fn visit_pat_ident(&mut self, p: &'ast PatIdent) {
        self.bindings.push(json!({"name": p.ident.to_string(), "fn": self.fn_stack.last(), "cfg": self.cur(), "line": line(p), "allow_unused": self.unused_stack.iter().any(|x| *x), "mut": p.mutability.is_some()}));
        visit::visit_pat_ident(self, p);
    }

    fn visit_block(&mut self, b: &'ast Block) {
        for (idx, st) in b.stmts.iter().enumerate() {
            if matches!(st, Stmt::Item(_)) {
                continue;
            }
            let here = cfgs(stmt_attrs(st));
            if here.is_empty() {
                continue;
            }
            let mut plain = st.clone();
            if let Some(a) = stmt_attrs_mut(&mut plain) {
                strip_cfg(a);
            }
            let mut residuals = serde_json::Map::new();
            for f in ["Debug", "Clone", "Copy", "PartialEq", "Eq", "PartialOrd", "Ord", "Hash", "Default", "Deref", "DerefMut", "Into"] {
                let (r, hits) = residual(st, f);
                residuals.insert(f.to_string(), json!({"stmts": r, "hits": hits}));
            }
            self.gated_stmts.push(json!({"cfg_here": here, "cfg_outer": self.cur(), "line": line(st), "fn": self.fn_stack.last(), "block": line(b), "idx": idx,
                "tokens": norm(&plain), "residual": residuals, "local_only": local_only(&plain)}));
        }
        visit::visit_block(self, b);
    }

    fn visit_stmt(&mut self, st: &'ast Stmt) {
        match st {
            Stmt::Macro(m) => {
                let attrs = m.attrs.clone();
                self.with(&attrs, |s| {
                    s.paths.push(json!({"cfg": s.cur(), "segments": m.mac.path.segments.iter().map(|x| x.ident.to_string()).collect::<Vec<_>>(), "line": line(m), "fn": s.fn_stack.last(), "macro": true}));
                    s.macro_tokens(m.mac.tokens.clone(), line(m));
                });
            }
            _ => visit::visit_stmt(self, st),
        }
    }

    fn visit_expr(&mut self, e: &'ast Expr) {
        let attrs = expr_attrs(e).to_vec();
        self.with(&attrs, |s| {
            // places where a local may be mutated: assignment / compound assignment to it (or to a field / index of it), `&mut x`,
            // and any method call on it (over-approximation: a call may take `&mut self`)
            fn base_ident(e: &Expr) -> Option<String> {
                match e {
                    Expr::Path(p) if p.path.segments.len() == 1 && p.qself.is_none() => Some(p.path.segments[0].ident.to_string()),
                    Expr::Field(f) => base_ident(&f.base),
                    Expr::Index(i) => base_ident(&i.expr),
                    Expr::Paren(p) => base_ident(&p.expr),
                    Expr::Unary(u) => base_ident(&u.expr),
                    _ => None,
                }
            }
            let target = match e {
                Expr::Assign(a) => base_ident(&a.left),
                Expr::Binary(b) if matches!(b.op, syn::BinOp::AddAssign(_) | syn::BinOp::SubAssign(_) | syn::BinOp::MulAssign(_) | syn::BinOp::DivAssign(_) | syn::BinOp::RemAssign(_)
                    | syn::BinOp::BitXorAssign(_) | syn::BinOp::BitAndAssign(_) | syn::BinOp::BitOrAssign(_) | syn::BinOp::ShlAssign(_) | syn::BinOp::ShrAssign(_)) => base_ident(&b.left),
                Expr::Reference(r) if r.mutability.is_some() => base_ident(&r.expr),
                Expr::MethodCall(m) => base_ident(&m.receiver),
                _ => None,
            };
            if let Some(n) = target {
                s.mutations.push(json!({"name": n, "cfg": s.cur(), "line": line(e), "fn": s.fn_stack.last()}));
            }
            if let Expr::Macro(m) = e {
                s.paths.push(json!({"cfg": s.cur(), "segments": m.mac.path.segments.iter().map(|x| x.ident.to_string()).collect::<Vec<_>>(), "line": line(m), "fn": s.fn_stack.last(), "macro": true}));
                s.macro_tokens(m.mac.tokens.clone(), line(m));
            }
            visit::visit_expr(s, e);
        });
    }

    fn visit_expr_method_call(&mut self, m: &'ast ExprMethodCall) {
        self.method_calls.push(json!({"name": m.method.to_string(), "cfg": self.cur(), "line": line(m), "fn": self.fn_stack.last()}));
        visit::visit_expr_method_call(self, m);
    }

    fn visit_arm(&mut self, a: &'ast Arm) {
        let attrs = a.attrs.clone();
        self.with(&attrs, |s| {
            s.arms.push(json!({"cfg": s.cur(), "pat": a.pat.to_token_stream().to_string(), "line": line(a), "fn": s.fn_stack.last()}));
            visit::visit_arm(s, a);
        });
    }

    fn visit_path(&mut self, p: &'ast syn::Path) {
        let segs: Vec<String> = p.segments.iter().map(|x| x.ident.to_string()).collect();
        self.paths.push(json!({"cfg": self.cur(), "segments": segs, "line": line(p), "fn": self.fn_stack.last(), "fn_cfg": self.fn_cfg_stack.last(), "leading_colon": p.leading_colon.is_some()}));
        visit::visit_path(self, p);
    }
}

fn collect_pat_idents(p: &Pat, out: &mut Vec<String>) {
    match p {
        Pat::Ident(i) => out.push(i.ident.to_string()),
        Pat::Type(t) => collect_pat_idents(&t.pat, out),
        Pat::Tuple(t) => t.elems.iter().for_each(|e| collect_pat_idents(e, out)),
        Pat::TupleStruct(t) => t.elems.iter().for_each(|e| collect_pat_idents(e, out)),
        Pat::Reference(r) => collect_pat_idents(&r.pat, out),
        Pat::Struct(s) => s.fields.iter().for_each(|f| collect_pat_idents(&f.pat, out)),
        _ => {}
    }
}

fn scan_file(path: &Path, module: Vec<String>, out: &mut Vec<Value>, root: &Path) {
    let src = match std::fs::read_to_string(path) {
        Ok(s) => s,
        Err(e) => {
            out.push(json!({"path": path.to_string_lossy(), "module": module, "error": format!("{}", e)}));
            return;
        }
    };
    let file = match syn::parse_file(&src) {
        Ok(f) => f,
        Err(e) => {
            out.push(json!({"path": path.to_string_lossy(), "module": module, "error": format!("parse: {}", e)}));
            return;
        }
    };
    let mut s = Scan { stack: vec![], fn_stack: vec![], fn_cfg_stack: vec![], mutations: vec![], items: vec![], uses: vec![], paths: vec![], lets: vec![], variants: vec![], arms: vec![], macro_idents: vec![], item_macros: vec![], bindings: vec![], mods: vec![], assoc_fns: vec![], method_calls: vec![], gated_stmts: vec![], dead_stack: vec![allows_dead(&file.attrs)], unused_stack: vec![allows_unused(&file.attrs)] };
    s.stack.extend(cfgs(&file.attrs));
    s.visit_file(&file);
    let rel = path.strip_prefix(root).unwrap_or(path).to_string_lossy().to_string();
    out.push(json!({"path": rel, "module": module, "items": s.items, "uses": s.uses, "paths": s.paths, "lets": s.lets, "variants": s.variants,
        "arms": s.arms, "macro_idents": s.macro_idents, "item_macros": s.item_macros, "bindings": s.bindings, "mutations": s.mutations,
        "assoc_fns": s.assoc_fns, "method_calls": s.method_calls, "gated_stmts": s.gated_stmts, "file_allow_dead": allows_dead(&file.attrs),
        "mods": s.mods.iter().map(|(n, c, inl, l, d)| json!({"name": n, "cfg": c, "inline": inl, "line": l, "allow_dead": d})).collect::<Vec<_>>()}));
    // follow out-of-line modules
    let dir: PathBuf = if path.file_name().map(|f| f == "lib.rs" || f == "mod.rs").unwrap_or(false) {
        path.parent().unwrap().to_path_buf()
    } else {
        path.with_extension("")
    };
    for (name, _c, inline, _l, _d) in s.mods.iter() {
        if *inline {
            continue;
        }
        let n = name.trim_start_matches("r#");
        let a = dir.join(format!("{}.rs", n));
        let b = dir.join(n).join("mod.rs");
        let mut m = module.clone();
        m.push(n.to_string());
        if a.exists() {
            scan_file(&a, m, out, root);
        } else if b.exists() {
            scan_file(&b, m, out, root);
        } else {
            out.push(json!({"path": a.to_string_lossy(), "module": m, "error": "module file not found"}));
        }
    }
}

fn main() {
    let root = std::env::args().nth(1).expect("src dir");
    let root = PathBuf::from(root);
    let mut out = vec![];
    scan_file(&root.join("lib.rs"), vec![], &mut out, &root);
    println!("{}", serde_json::to_string(&json!({"files": out})).unwrap());
}
