# developer helper: writes the brief for an independent mutation sub-agent (property text + scratch worktree only)
# usage: python3 tools/agent_prompt.py <ID> <worktree> [extra paragraph] > /tmp/prompt_<ID>.txt
import json,sys
pid=sys.argv[1]; wt=sys.argv[2]; extra=sys.argv[3] if len(sys.argv)>3 else ''
import os
p=[json.loads(l) for l in open(os.path.join(os.path.dirname(os.path.abspath(__file__)),'..','properties.jsonl')) if json.loads(l)['id']==pid][0]
print(f"""You are helping evaluate a verification effort for the Rust procedural-macro crate `educe` (derive macros for Debug, PartialEq, Ord, Hash, Default, Clone, Deref, Into ...). You have your own scratch git worktree of the crate at {wt} (work ONLY there; do not read or touch /repo, /verif or any other directory outside {wt} and /tmp). The machine is offline: use `cargo ... --offline` (CARGO_NET_OFFLINE=true); all dependencies are already cached.

Here is a semantic property the crate is supposed to satisfy:

  id: {p['id']}
  title: {p['title']}
  statement: {p['statement']}
  quantifier: {p['quantifier']['text']}
  code anchors: {json.dumps(p['anchors']['files'])}
  mechanisms: {json.dumps(p['anchors']['mechanism'])}

YOUR TASK: produce ONE realistic source change to the crate (under {wt}/src) that BREAKS this property, while
  (a) the crate still compiles without errors,
  (b) the crate's existing test suite still passes unchanged: run `cd {wt} && cargo test --workspace --no-fail-fast --offline` and confirm everything passes (do NOT edit anything under tests/),
  (c) the breakage is SUBTLE: it needs something specific to manifest — an unusual input shape or value (e.g. only the 3rd field of a tuple variant, only when a particular attribute combination is used, only for particular values / boundary values, only for a particular variant position, two cooperating sites that each look fine alone) — not something that ordinary use or the existing tests would expose at once. It should look like a plausible refactoring slip or an "optimisation", not like sabotage (no comments announcing it).
{extra}
Also write a DEMONSTRATION: a small standalone cargo project at {wt}/demo (Cargo.toml with `educe = {{ path = ".." }}`, an empty `[workspace]` table, and src/main.rs) whose `cargo run --offline` exits 0 (prints "demo ok") on the ORIGINAL code and fails (panics / non-zero exit, or fails to compile if the property is about compiling) WITH your change. Verify both directions yourself (to switch between original and changed source use `git -C {wt} diff > /tmp/{pid}_change.patch; git -C {wt} apply -R /tmp/{pid}_change.patch` and later `git -C {wt} apply /tmp/{pid}_change.patch` — do NOT use git stash: the stash is shared between worktrees and other people are working in sibling worktrees; the demo directory is untracked so it survives).

When done, leave the worktree WITH your change applied (uncommitted, so that `git -C {wt} diff` shows exactly the change; the demo/ directory untracked), and reply with: (1) the output of `git -C {wt} diff`, (2) one paragraph on what specific condition is needed for the breakage to manifest, (3) the commands you ran to confirm (a), (b) and both directions of the demo, with their results. Keep the change small (ideally < 15 changed lines, one or two files).""")
